"""Engine K: guarded, state-merging symbolic interpreter over Cython's own parse tree of the
repository's `numerics.pyx` files.

Nothing about a kernel is written down here: the functions are re-parsed from /repo on every run.
The interpreter executes the parse tree on values of `vf.sx` (python numbers, z3 terms, NaN-able
floats).  Control flow that depends on symbolic data is merged (`ite`), loops whose trip count is
symbolic are unrolled to a caller-supplied bound and an *unwinding event* records the condition under
which the bound would be too small.  Every array access emits a bounds event, every true division a
zero-divisor event; an event whose condition is not syntactically false is kept in `Run.events` and the
harness must discharge it (or use it as a hypothesis) explicitly.
"""
import hashlib
import math
import os
from fractions import Fraction

import z3

from . import sx
from .sx import (NF, add, and_, div, eq, ge, gt, implies, is_sym, ite, le, lt, mul, ne, neg, not_,
                 or_, sub, truth)

REPO = os.environ.get("VERIF_REPO", "/repo")

INT_TYPES = {
    "int": 32, "long": 64, "short": 16, "char": 8, "bint": 1, "Py_ssize_t": 64, "size_t": 64,
    "int8": 8, "int16": 16, "int32": 32, "int64": 64,
}
FLOAT_TYPES = {"float": 32, "double": 64, "float32": 32, "float64": 64}
# ctypedefs of core/_ext/types.pxd are read from the file (see load_ctypedefs)


class Unsupported(Exception):
    pass


class KernelError(Exception):
    """concrete-mode exception raised by the interpreted kernel (IndexError, ZeroDivisionError...)"""

    def __init__(self, kind, where):
        super().__init__(f"{kind} at {where}")
        self.kind = kind
        self.where = where


UNDEF = sx.UNDEF


class Arr:
    """ndarray stand-in: concrete shape, flat list of values"""

    def __init__(self, shape, data, dtype="float64", name=""):
        self.shape = tuple(int(s) for s in shape)
        self.data = list(data)
        n = 1
        for s in self.shape:
            n *= s
        assert len(self.data) == n, (self.shape, len(self.data))
        self.dtype = dtype
        self.name = name
        self.version = 0

    @classmethod
    def full(cls, shape, v, dtype="float64", name=""):
        if isinstance(shape, int):
            shape = (shape,)
        n = 1
        for s in shape:
            n *= s
        return cls(shape, [v] * n, dtype, name)

    @classmethod
    def of(cls, nested, dtype="float64", name=""):
        shape = []
        x = nested
        while isinstance(x, (list, tuple)):
            shape.append(len(x))
            x = x[0] if len(x) else None

        def flat(y, d):
            if d == len(shape):
                return [y]
            out = []
            for z in y:
                out.extend(flat(z, d + 1))
            return out
        return cls(shape, flat(nested, 0), dtype, name)

    @property
    def ndim(self):
        return len(self.shape)

    def __len__(self):
        return self.shape[0]

    def strides(self):
        st = [1] * len(self.shape)
        for k in range(len(self.shape) - 2, -1, -1):
            st[k] = st[k + 1] * self.shape[k + 1]
        return st

    def get(self, *ix):
        st = self.strides()
        return self.data[sum(i * s for i, s in zip(ix, st))]

    def set(self, ix, v):
        st = self.strides()
        self.data[sum(i * s for i, s in zip(ix, st))] = v

    def copy(self):
        return Arr(self.shape, list(self.data), self.dtype, self.name)

    def nested(self, f=lambda x: x):
        def rec(off, d):
            if d == len(self.shape):
                return f(self.data[off])
            st = self.strides()[d]
            return [rec(off + i * st, d + 1) for i in range(self.shape[d])]
        return rec(0, 0)

    def is_int(self):
        return self.dtype.startswith("int") or self.dtype == "bool"

    def __repr__(self):
        return f"Arr{self.shape}:{self.dtype}"


class PList:
    """python list inside a kernel; items carry the guard under which they were appended"""

    def __init__(self, items=None):
        self.items = [(True, x) for x in (items or [])]

    def plain(self):
        return all(g is True for g, _ in self.items)

    def append(self, v, guard=True):
        if guard is False:
            return
        self.items.append((guard, v))

    def __len__(self):
        if not self.plain():
            raise Unsupported("len() of guarded list as python int")
        return len(self.items)

    def sym_len(self):
        return sx.total(ite(g, 1, 0) for g, _ in self.items)

    def values(self):
        return [v for _, v in self.items]

    def __repr__(self):
        return f"PList({self.items})"


class PSel:
    """a list-valued variable that is one of several PList objects depending on conditions (first matching case wins)"""

    def __init__(self, cases):
        flat = []
        for c, l in cases:
            if isinstance(l, PSel):
                for c2, l2 in l.cases:
                    flat.append((and_(c, c2), l2))
            else:
                flat.append((c, l))
        self.cases = flat

    def exclusive(self):
        """cases with mutually exclusive conditions"""
        out = []
        prev = []
        for c, l in self.cases:
            out.append((and_(c, *[not_(p) for p in prev]), l))
            prev.append(c)
        return out


class FuncRef:
    def __init__(self, name, node, module):
        self.name, self.node, self.module = name, node, module

    def __repr__(self):
        return f"<kernel {self.name}>"


class Ptr:
    """raw pointer handed to C: (array, element offset, element type name)"""

    def __init__(self, arr, off=0, ctype=None):
        self.arr, self.off, self.ctype = arr, off, ctype


class Event:
    def __init__(self, kind, cond, where):
        self.kind, self.cond, self.where = kind, cond, where

    def __repr__(self):
        return f"Event({self.kind}@{self.where})"


EXC_KINDS = ("IndexError", "ZeroDivisionError", "UnboundLocalError", "OverflowError", "TypeError",
             "ValueError")


# ======================================================================== module loading
_modcache = {}


def load_ctypedefs():
    """ctypedef chain of core/_ext/types.pxd -> base numpy type name"""
    path = os.path.join(REPO, "src/pyunicorn/core/_ext/types.pxd")
    out = {}
    for line in open(path):
        line = line.strip()
        if line.startswith("ctypedef"):
            parts = line.split()
            if len(parts) == 3:
                src, dst = parts[1], parts[2]
                out[dst] = src
    res = {}
    for k in out:
        v = k
        seen = 0
        while v in out and seen < 10:
            v = out[v]
            seen += 1
        v = v.replace("cnp.", "").replace("_t", "")
        res[k] = v
    return res


class KModule:
    def __init__(self, pkg):
        from Cython.Compiler.TreeFragment import parse_from_strings
        self.pkg = pkg
        self.path = os.path.join(REPO, f"src/pyunicorn/{pkg}/_ext/numerics.pyx")
        self.src = open(self.path).read()
        self.sha = hashlib.sha1(self.src.encode()).hexdigest()[:12]
        self.tree = parse_from_strings("numerics", self.src)
        self.ctypedefs = load_ctypedefs()
        self.funcs = {}
        self.externs = set()
        self.globals = {}
        self.lines = self.src.split("\n")
        self._collect(self.tree.body.stats if hasattr(self.tree.body, "stats") else [self.tree.body])

    def _collect(self, stats):
        for s in stats:
            cn = type(s).__name__
            if cn == "DefNode":
                self.funcs[s.name] = FuncRef(s.name, s, self)
            elif cn == "CFuncDefNode":
                d = s.declarator
                while not hasattr(d, "name") or not isinstance(getattr(d, "name", None), str):
                    d = d.base
                # CFuncDeclaratorNode.base is the CNameDeclaratorNode
                name = d.name if isinstance(d.name, str) and d.name else d.base.name
                self.funcs[name] = FuncRef(name, s, self)
            elif cn == "StatListNode":
                self._collect(s.stats)
            elif cn == "CDefExternNode":
                body = s.body
                for d in (body.stats if hasattr(body, "stats") else [body]):
                    if type(d).__name__ == "CVarDefNode":
                        for decl in d.declarators:
                            x = decl
                            while not isinstance(getattr(x, "name", None), str) or not x.name:
                                x = x.base
                            self.externs.add(x.name)
            elif cn == "CVarDefNode":
                # module-level cdef variables (function pointer constants = NULL)
                for decl in s.declarators:
                    x = decl
                    while not isinstance(getattr(x, "name", None), str) or not x.name:
                        if not hasattr(x, "base"):
                            break
                        x = x.base
                    nm = getattr(x, "name", None)
                    dflt = getattr(decl, "default", None)
                    if nm and dflt is not None and type(dflt).__name__ == "NullNode":
                        self.globals[nm] = None
            elif cn == "SingleAssignmentNode":
                # e.g. randint = rd.randint
                if type(s.lhs).__name__ == "NameNode":
                    self.globals[s.lhs.name] = ("alias", dotted(s.rhs))

    def where(self, node):
        pos = getattr(node, "pos", None)
        line = pos[1] if pos else 0
        return f"{self.pkg}/_ext/numerics.pyx:{line}"

    def func_info(self, name):
        f = self.funcs[name]
        pos = f.node.pos[1]
        # hash of the function's own source text (until the next top-level def)
        end = pos
        while end < len(self.lines) and not (end > pos and self.lines[end][:1] not in (" ", "", "\t", ")")
                                             and not self.lines[end].startswith("#")):
            end += 1
        text = "\n".join(self.lines[pos - 1:end])
        return f"src/pyunicorn/{self.pkg}/_ext/numerics.pyx:{pos} {name} sha1={hashlib.sha1(text.encode()).hexdigest()[:10]}"


def module(pkg):
    if pkg not in _modcache:
        _modcache[pkg] = KModule(pkg)
    return _modcache[pkg]


def dotted(node):
    cn = type(node).__name__
    if cn == "NameNode":
        return node.name
    if cn == "AttributeNode":
        b = dotted(node.obj)
        return None if b is None else b + "." + node.attribute
    return None


def boundscheck_setting():
    """read the Cython directives from setup.py (boundscheck / wraparound / cdivision)"""
    src = open(os.path.join(REPO, "setup.py")).read()
    import re
    out = {"boundscheck": True, "wraparound": True, "cdivision": False}
    for k in out:
        m = re.search(r"['\"]%s['\"]\s*:\s*(True|False)" % k, src)
        if m:
            out[k] = (m.group(1) == "True")
    return out


# ======================================================================== the interpreter
def term_small(t, limit=1500):
    """does the term DAG have at most `limit` nodes?"""
    if not isinstance(t, z3.ExprRef):
        return True
    seen = set()
    stack = [t]
    while stack:
        x = stack.pop()
        i = x.get_id()
        if i in seen:
            continue
        seen.add(i)
        if len(seen) > limit:
            return False
        stack.extend(x.children())
    return True


class Loop:
    __slots__ = ("brk", "cont")

    def __init__(self):
        self.brk = False
        self.cont = False


class Frame:
    def __init__(self, func):
        self.func = func
        self.env = {}
        self.types = {}
        self.ret = False
        self.retval = None
        self.loops = []


class Run:
    """one interpretation of kernels of one module.

    loop_bound : max iterations for loops whose trip count is symbolic
    symbolic   : False = concrete mode (python floats, real exceptions)
    rand       : callable(kind, arg) supplying random draws; default = fresh solver variables
    extern     : callable(name, args, run) interpreting `cdef extern` C functions
    """

    def __init__(self, mod, loop_bound=None, symbolic=True, rand=None, extern=None, prefix="k",
                 while_true_cut=True, split=True, hyps=None, feas_timeout_ms=2000, domain="R"):
        self.mod = mod if isinstance(mod, KModule) else module(mod)
        self.loop_bound = loop_bound
        self.symbolic = symbolic
        self.rand = rand
        self.extern = extern
        self.events = []
        self.assumptions = []
        self.draws = []
        self.dead = False
        self.prefix = prefix
        self.nfresh = 0
        self.directives = boundscheck_setting()
        self.while_true_cut = while_true_cut
        self.called = []
        self.split = split if isinstance(split, bool) else set(split or ())
        self.domain = domain
        self.hyps = [h for h in (hyps or []) if h is not True]
        self._solver = None
        self.feas_timeout_ms = feas_timeout_ms
        self._names_cache = {}
        self._range_cache = {}
        self._read_cache = {}
        self._conj_cache = {}
        self._keepalive = []
        self.stats = {"stmts": 0, "merges": 0}

    # ------------------------------------------------------------------ helpers
    def fresh(self, kind, tag):
        self.nfresh += 1
        nm = f"{self.prefix}_{tag}{self.nfresh}"
        return z3.Int(nm) if kind == "int" else (z3.Real(nm) if kind == "real" else z3.Bool(nm))

    def feasible(self, c):
        """cheap satisfiability check of a path condition under the run's hypotheses"""
        if c is True:
            return True
        if c is False:
            return False
        self.stats["feas"] = self.stats.get("feas", 0) + 1
        if self._solver is None:
            self._solver = z3.Solver()
            self._solver.set("timeout", self.feas_timeout_ms)
            for h in self.hyps:
                self._solver.add(h)
            self._nassum = 0
        while self._nassum < len(self.assumptions):
            a = self.assumptions[self._nassum]
            if a is not True:
                self._solver.add(a)
            self._nassum += 1
        self._solver.push()
        self._solver.add(c)
        r = str(self._solver.check())
        self._solver.pop()
        return r != "unsat"

    def event(self, kind, cond, node, guard):
        c = and_(guard, cond)
        if c is False:
            return
        if self.symbolic and c is not True:
            if term_small(c):
                # (z3.simplify has no time limit: only small terms; it folds guards that are constant in disguise)
                c = self.simp(c)
            if c is False or (c is not True and not self.feasible(c)):
                return
        w = self.mod.where(node)
        if c is True and not self.symbolic:
            raise KernelError(kind, w)
        self.events.append(Event(kind, c, w))
        if kind in EXC_KINDS or kind == "unwind":
            self.dead = or_(self.dead, c)

    def ok(self):
        """no exception / no unwinding overflow happened"""
        return not_(or_(*[e.cond for e in self.events])) if self.events else True

    def exc(self, kinds=EXC_KINDS):
        return or_(*[e.cond for e in self.events if e.kind in kinds])

    def ctype(self, name):
        """normalise a declared C type name -> ('int', bits) | ('float', bits) | ('obj', 0)"""
        if name is None:
            return ("obj", 0)
        name = self.mod.ctypedefs.get(name, name)
        if name in INT_TYPES:
            return ("int", INT_TYPES[name])
        if name in FLOAT_TYPES:
            return ("float", FLOAT_TYPES[name])
        return ("obj", 0)

    def coerce(self, v, ct):
        kind, bits = ct
        if isinstance(v, (Arr, PList, FuncRef, Ptr)) or v is None or v is UNDEF:
            return v
        if kind == "int":
            if bits == 1:
                return truth(v)
            if isinstance(v, (bool, z3.BoolRef)):
                return sx.b2i(v)
            if isinstance(v, NF):
                return sx.trunc(v)
            if not is_sym(v):
                return int(v) if not isinstance(v, int) else v
            return sx.trunc(v)
        if kind == "float":
            if self.domain == "F":
                return sx.fp_cast(v, sx.fp_sort_of(bits))
            if isinstance(v, (bool, z3.BoolRef)):
                v = sx.b2i(v)
            if not is_sym(v):
                if self.symbolic:
                    return v if isinstance(v, (Fraction, float)) else Fraction(v)
                return float(v)
            return sx.to_real(v)
        return v

    def live(self, frame, guard):
        g = and_(guard, not_(frame.ret), not_(self.dead))
        if frame.loops:
            lp = frame.loops[-1]
            g = and_(g, not_(lp.brk), not_(lp.cont))
        return g

    # ------------------------------------------------------------------ calling
    def call(self, name, args, guard=True):
        f = self.mod.funcs[name]
        return self.call_func(f, list(args), guard)

    def call_func(self, f, args, guard, kwargs=None):
        node = f.node
        self.called.append(f.name)
        frame = Frame(f)
        cn = type(node).__name__
        if cn == "DefNode":
            argnodes = node.args
        else:
            d = node.declarator
            while not hasattr(d, "args"):
                d = d.base
            argnodes = d.args
        if len(args) > len(argnodes):
            raise Unsupported(f"too many args for {f.name}")
        for i, an in enumerate(argnodes):
            nm = self.decl_name(an.declarator)
            tname = self.type_name(an.base_type)
            frame.types[nm] = self.ctype(tname)
            if i < len(args):
                v = args[i]
            elif kwargs and nm in kwargs:
                v = kwargs[nm]
            elif an.default is not None:
                v = self.ev(an.default, frame, guard)
            else:
                raise Unsupported(f"missing arg {nm} for {f.name}")
            # pointer-typed parameters (function pointers, arrays) pass through
            if self.is_ptr_decl(an.declarator):
                frame.env[nm] = v
            else:
                frame.env[nm] = self.coerce(v, frame.types[nm])
        self.block(node.body, frame, guard)
        return frame.retval

    def decl_name(self, d):
        while not isinstance(getattr(d, "name", None), str) or not d.name:
            d = d.base
        return d.name

    def is_ptr_decl(self, d):
        while d is not None:
            if type(d).__name__ in ("CPtrDeclaratorNode", "CFuncDeclaratorNode"):
                return True
            d = getattr(d, "base", None)
        return False

    def type_name(self, bt):
        cn = type(bt).__name__
        if cn == "CSimpleBaseTypeNode":
            nm = bt.name
            if nm == "int" and bt.longness == 1:
                return "long"
            if nm == "int" and bt.longness == -1:
                return "short"
            return nm
        if cn == "TemplatedTypeNode":
            return "ndarray"
        if cn == "MemoryViewSliceTypeNode":
            return "ndarray"
        return None

    # ------------------------------------------------------------------ statements
    def block(self, node, frame, guard):
        cn = type(node).__name__
        if cn == "StatListNode":
            for s in node.stats:
                g = self.live(frame, guard)
                if g is False:
                    return
                self.stmt(s, frame, g)
        else:
            g = self.live(frame, guard)
            if g is not False:
                self.stmt(node, frame, g)

    SPLIT_SIMPLE = ("SingleAssignmentNode", "CascadedAssignmentNode", "InPlaceAssignmentNode", "ExprStatNode",
                    "IfStatNode")

    def stmt(self, s, frame, g):
        self.stats["stmts"] += 1
        cn = type(s).__name__
        m = getattr(self, "s_" + cn, None)
        if m is None:
            raise Unsupported(f"statement {cn} at {self.mod.where(s)}")
        if self.split and self.symbolic:
            if cn in self.SPLIT_SIMPLE:
                sp = self.find_split(self.names_in(s, None), frame)
            elif cn == "ForInStatNode":
                sp = self.find_split(self.names_in(s, "iterator"), frame)
            else:
                sp = None
            if sp is not None:
                return self.split_stmt(s, frame, g, sp[0], sp[1])
        m(s, frame, g)

    # ---- control splitting on small-domain integer variables --------------------------------
    def names_in(self, node, attr):
        key = (id(node), attr)
        c = self._names_cache.get(key)
        if c is not None:
            return c
        out = []
        root = getattr(node, attr) if attr else node

        def walk(n):
            if type(n).__name__ == "NameNode":
                if n.name not in out:
                    out.append(n.name)
            for ca in n.child_attrs:
                ch = getattr(n, ca, None)
                if isinstance(ch, list):
                    for x in ch:
                        if x is not None and hasattr(x, "child_attrs"):
                            walk(x)
                elif ch is not None and hasattr(ch, "child_attrs"):
                    walk(ch)
        if root is not None:
            walk(root)
        self._names_cache[key] = out
        return out

    def leaves_of(self, v, limit=12):
        """v = nest of z3 If with integer-numeral leaves -> [(cond, int)] (distinct values) or None"""
        if not (isinstance(v, z3.ArithRef) and z3.is_app(v) and v.decl().kind() == z3.Z3_OP_ITE):
            return None
        acc = {}
        order = []

        def rec(t, pc, depth):
            if z3.is_int_value(t):
                k = t.as_long()
                if k not in acc:
                    acc[k] = []
                    order.append(k)
                acc[k].append(and_(*pc))
                return len(order) <= limit
            if z3.is_app(t) and t.decl().kind() == z3.Z3_OP_ITE and depth < 40:
                c = t.arg(0)
                return rec(t.arg(1), pc + [c], depth + 1) and rec(t.arg(2), pc + [not_(c)], depth + 1)
            return False
        if not rec(v, [], 0):
            return None
        if len(order) < 2:
            return None
        return [(or_(*acc[k]), k) for k in order]

    def find_split(self, names, frame):
        for nm in names:
            if self.split is not True and nm not in self.split:
                continue
            v = frame.env.get(nm)
            if isinstance(v, z3.ArithRef):
                lv = self.leaves_of(v)
                if lv is not None:
                    return nm, lv
        return None

    def simp(self, c):
        if isinstance(c, z3.BoolRef):
            return sx.conc(z3.simplify(c))
        return c

    def split_stmt(self, s, frame, g, nm, leaves):
        self.stats["splits"] = self.stats.get("splits", 0) + 1
        posts = []
        for c, val in leaves:
            gi = self.simp(and_(g, c))
            frame.env[nm] = val
            if gi is not False and not self.feasible(gi):
                gi = False
            if gi is not False:
                self.stmt(s, frame, gi)
            posts.append((c, frame.env[nm]))
        out = posts[-1][1]
        for c, r in reversed(posts[:-1]):
            out = self.merge(c, r, out)
        # normalise to a flat chain over distinct values with simplified, non-false conditions
        lv = self.leaves_of(out, limit=64) if isinstance(out, z3.ArithRef) else None
        if lv is not None:
            lv = [(self.simp(c), v) for c, v in lv]
            lv = [(c, v) for c, v in lv if c is not False]
            if lv:
                out = lv[-1][1]
                for c, v in reversed(lv[:-1]):
                    out = ite(c, v, out)
        frame.env[nm] = out

    def cond_split(self, node, frame, g):
        """evaluate a loop condition, splitting on small-domain variables"""
        if self.split and self.symbolic:
            sp = self.find_split(self.names_in(node, None), frame)
            if sp is not None:
                nm, leaves = sp
                saved = frame.env[nm]
                res = False
                for c, val in leaves:
                    gi = self.simp(and_(g, c))
                    if gi is False or not self.feasible(gi):
                        continue
                    frame.env[nm] = val
                    res = or_(res, and_(c, self.cond_split(node, frame, gi)))
                frame.env[nm] = saved
                return res
        return truth(self.ev(node, frame, g))

    def s_StatListNode(self, s, frame, g):
        self.block(s, frame, g)

    def s_PassStatNode(self, s, frame, g):
        pass

    def s_CVarDefNode(self, s, frame, g):
        tname = self.type_name(s.base_type)
        ct = self.ctype(tname)
        for d in s.declarators:
            nm = self.decl_name(d)
            ptr = self.is_ptr_decl(d)
            frame.types[nm] = ("obj", 0) if ptr else ct
            dflt = getattr(d, "default", None)
            if dflt is not None:
                v = self.ev(dflt, frame, g)
                self.assign_name(nm, v, frame, g)
            elif nm not in frame.env:
                frame.env[nm] = UNDEF

    def s_ExprStatNode(self, s, frame, g):
        self.ev(s.expr, frame, g)

    def s_SingleAssignmentNode(self, s, frame, g):
        v = self.ev(s.rhs, frame, g)
        self.assign(s.lhs, v, frame, g)

    def s_CascadedAssignmentNode(self, s, frame, g):
        v = self.ev(s.rhs, frame, g)
        for lhs in s.lhs_list:
            self.assign(lhs, v, frame, g)

    def s_InPlaceAssignmentNode(self, s, frame, g):
        rhs = self.ev(s.rhs, frame, g)
        lhs = s.lhs
        if type(lhs).__name__ == "IndexNode":
            base = self.ev(lhs.base, frame, g)
            idx = self.ev_index(lhs.index, frame, g)
            old = self.read_index(base, idx, lhs, g)
            new = self.binop(s.operator, old, rhs, s, g)
            self.write_index(base, idx, new, lhs, g)
            return
        old = self.ev(lhs, frame, g)
        if isinstance(old, Arr):
            new = self.binop(s.operator, old, rhs, s, g)
            old.version += 1
            for k in range(len(old.data)):
                old.data[k] = ite(g, new.data[k], old.data[k])
            return
        new = self.binop(s.operator, old, rhs, s, g)
        self.assign(lhs, new, frame, g)

    def s_IfStatNode(self, s, frame, g):
        rest = g
        for cl in s.if_clauses:
            if rest is False:
                return
            c = truth(self.ev(cl.condition, frame, rest))
            # evaluating the condition may have killed paths
            rest_live = and_(rest, not_(self.dead))
            gc = and_(rest_live, c)
            if gc is not False:
                self.block(cl.body, frame, gc)
            rest = and_(rest_live, not_(c))
        if s.else_clause is not None and rest is not False:
            self.block(s.else_clause, frame, rest)

    def s_BreakStatNode(self, s, frame, g):
        lp = frame.loops[-1]
        lp.brk = or_(lp.brk, g)

    def s_ContinueStatNode(self, s, frame, g):
        lp = frame.loops[-1]
        lp.cont = or_(lp.cont, g)

    def s_ReturnStatNode(self, s, frame, g):
        v = self.ev(s.value, frame, g) if s.value is not None else None
        if frame.ret is False or frame.retval is None:
            frame.retval = v if frame.ret is False else self.merge(g, v, frame.retval)
        else:
            frame.retval = self.merge(g, v, frame.retval)
        frame.ret = or_(frame.ret, g)

    def merge(self, g, new, old):
        if g is True or old is None or old is UNDEF:
            return new
        if isinstance(new, tuple) and isinstance(old, tuple) and len(new) == len(old):
            return tuple(self.merge(g, a, b) for a, b in zip(new, old))
        if isinstance(new, Arr) and isinstance(old, Arr):
            if new is old:
                return new
            return Arr(new.shape, [ite(g, a, b) for a, b in zip(new.data, old.data)], new.dtype)
        if isinstance(new, (PList, PSel)) and isinstance(old, (PList, PSel)):
            if new is old:
                return new
            return PSel([(g, new), (True, old)])
        if isinstance(new, (Arr, PList, FuncRef)) or isinstance(old, (Arr, PList, FuncRef)):
            if new is old:
                return new
            raise Unsupported("merge of object values under a symbolic guard")
        self.stats["merges"] += 1
        return ite(g, new, old)

    def s_ForInStatNode(self, s, frame, g):
        seq = s.iterator.sequence
        lp = Loop()
        frame.loops.append(lp)
        try:
            self._for_body(s, seq, frame, g, lp)
        finally:
            frame.loops.pop()
        if s.else_clause is not None:
            # the else suite runs when the loop was not left by `break`
            ge_ = and_(g, not_(lp.brk), not_(frame.ret), not_(self.dead))
            if ge_ is not False:
                self.block(s.else_clause, frame, ge_)

    def _for_body(self, s, seq, frame, g, lp):
        if True:
            if type(seq).__name__ == "SimpleCallNode" and dotted(seq.function) == "range":
                self.for_range(s, seq, frame, g, lp)
            else:
                it = self.ev(seq, frame, g)
                if isinstance(it, Arr):
                    if it.ndim != 1:
                        raise Unsupported("iteration over nd array")
                    vals = list(it.data)
                elif isinstance(it, PList):
                    if not it.plain():
                        raise Unsupported("iteration over guarded list")
                    vals = it.values()
                elif isinstance(it, (list, tuple)):
                    vals = list(it)
                else:
                    raise Unsupported(f"iteration over {type(it)}")
                for v in vals:
                    gi = and_(g, not_(lp.brk), not_(frame.ret), not_(self.dead))
                    if gi is False:
                        break
                    lp.cont = False
                    self.assign(s.target, v, frame, gi)
                    self.block(s.body, frame, gi)

    def for_range(self, s, seq, frame, g, lp):
        args = [self.ev(a, frame, g) for a in seq.args]
        args = [sx.trunc(a) if not isinstance(a, int) else a for a in args]
        if len(args) == 1:
            start, stop, step = 0, args[0], 1
        elif len(args) == 2:
            start, stop, step = args[0], args[1], 1
        else:
            start, stop, step = args
        if is_sym(step):
            raise Unsupported("symbolic range step")
        if not is_sym(start) and not is_sym(stop):
            for v in range(start, stop, step):
                gi = and_(g, not_(lp.brk), not_(frame.ret), not_(self.dead))
                if gi is False:
                    break
                lp.cont = False
                self.assign(s.target, v, frame, gi)
                self.block(s.body, frame, gi)
            return
        if self.loop_bound is None:
            raise Unsupported(f"symbolic trip count without loop_bound at {self.mod.where(s)}")
        K = self.loop_bound
        t = 0
        while True:
            v = add(start, t * step)
            inrange = lt(v, stop) if step > 0 else gt(v, stop)
            gi = and_(g, inrange, not_(lp.brk), not_(frame.ret), not_(self.dead))
            if gi is False:
                break
            if t >= K:
                self.event("unwind", True, s, gi)
                break
            lp.cont = False
            self.assign(s.target, v, frame, gi)
            self.block(s.body, frame, gi)
            t += 1

    def s_WhileStatNode(self, s, frame, g):
        if s.else_clause is not None:
            raise Unsupported("while-else")
        lp = Loop()
        frame.loops.append(lp)
        cond_const_true = type(s.condition).__name__ == "BoolNode" and s.condition.value
        try:
            count = 0
            hard = 10 ** 6
            while True:
                g0 = and_(g, not_(lp.brk), not_(frame.ret), not_(self.dead))
                if g0 is False:
                    break
                c = self.cond_split(s.condition, frame, g0)
                gi = and_(g0, not_(self.dead), c)
                if gi is False:
                    break
                if self.symbolic and cond_const_true and self.while_true_cut and count >= 1:
                    # rejection loop: assume the first iteration was accepted (termination is
                    # outside every claim); recorded as an assumption
                    self.assumptions.append(not_(gi))
                    self.events.append(Event("assume-accept", gi, self.mod.where(s)))
                    break
                if (self.loop_bound is not None and count >= self.loop_bound and (is_sym(gi) or self.symbolic and self.draws)):
                    # (with symbolic draws a concretely-true guard means: no draw is accepted -> the step is vacuous)
                    if is_sym(gi):
                        self.event("unwind", True, s, gi)             # feasibility-pruned like every event
                    else:
                        self.events.append(Event("unwind", gi, self.mod.where(s)))
                        self.dead = or_(self.dead, gi)
                    break
                if count >= hard:
                    raise Unsupported("loop does not terminate in concrete control")
                lp.cont = False
                self.block(s.body, frame, gi)
                count += 1
                if self.loop_bound is None and is_sym(gi) and count > 64:
                    raise Unsupported(f"symbolic while without loop_bound at {self.mod.where(s)}")
        finally:
            frame.loops.pop()

    # ------------------------------------------------------------------ assignment
    def assign_name(self, nm, v, frame, g):
        ct = frame.types.get(nm)
        if ct is not None:
            v = self.coerce(v, ct)
        if g is True or nm not in frame.env:
            frame.env[nm] = v
        else:
            frame.env[nm] = self.merge(g, v, frame.env[nm])

    def assign(self, lhs, v, frame, g):
        cn = type(lhs).__name__
        if cn == "NameNode":
            self.assign_name(lhs.name, v, frame, g)
        elif cn == "IndexNode":
            base = self.ev(lhs.base, frame, g)
            idx = self.ev_index(lhs.index, frame, g)
            self.write_index(base, idx, v, lhs, g)
        elif cn == "TupleNode":
            vals = self.seq_values(v)
            if len(vals) != len(lhs.args):
                raise Unsupported("tuple unpack length mismatch")
            for t, x in zip(lhs.args, vals):
                self.assign(t, x, frame, g)
        else:
            raise Unsupported(f"assignment target {cn}")

    def seq_values(self, v):
        if isinstance(v, (list, tuple)):
            return list(v)
        if isinstance(v, Arr) and v.ndim == 1:
            return list(v.data)
        if isinstance(v, PList) and v.plain():
            return v.values()
        raise Unsupported(f"cannot unpack {type(v)}")

    # ------------------------------------------------------------------ indexing
    def ev_index(self, node, frame, g):
        if type(node).__name__ == "TupleNode":
            return [self.ev_index1(a, frame, g) for a in node.args]
        return [self.ev_index1(node, frame, g)]

    def ev_index1(self, node, frame, g):
        cn = type(node).__name__
        if cn == "SliceNode":
            lo = None if type(node.start).__name__ == "NoneNode" else self.ev(node.start, frame, g)
            hi = None if type(node.stop).__name__ == "NoneNode" else self.ev(node.stop, frame, g)
            st = getattr(node, "step", None)
            if st is not None and type(st).__name__ != "NoneNode":
                raise Unsupported("slice step")
            return ("slice", lo, hi)
        v = self.ev(node, frame, g)
        if isinstance(v, PList) and v.plain():
            return ("fancy", v.values())
        if isinstance(v, (list, tuple)):
            return ("fancy", list(v))
        return v

    def int_range(self, t, depth=0):
        """syntactic interval of an integer term: (lo, hi) or None"""
        if isinstance(t, bool):
            return (int(t), int(t))
        if isinstance(t, int):
            return (t, t)
        if not isinstance(t, z3.ExprRef):
            return None
        key = t.get_id()
        c = self._range_cache.get(key)
        if c is not None:
            return c if c != 0 else None
        r = None
        if z3.is_int_value(t):
            r = (t.as_long(), t.as_long())
        elif z3.is_app(t) and depth < 60:
            k = t.decl().kind()
            ch = t.children()
            if k == z3.Z3_OP_ITE:
                a, b = self.int_range(ch[1], depth + 1), self.int_range(ch[2], depth + 1)
                if a and b:
                    r = (min(a[0], b[0]), max(a[1], b[1]))
            elif k == z3.Z3_OP_ADD:
                rs = [self.int_range(x, depth + 1) for x in ch]
                if all(rs):
                    r = (sum(x[0] for x in rs), sum(x[1] for x in rs))
            elif k == z3.Z3_OP_SUB and len(ch) == 2:
                a, b = self.int_range(ch[0], depth + 1), self.int_range(ch[1], depth + 1)
                if a and b:
                    r = (a[0] - b[1], a[1] - b[0])
            elif k == z3.Z3_OP_MUL and len(ch) == 2:
                a, b = self.int_range(ch[0], depth + 1), self.int_range(ch[1], depth + 1)
                if a and b:
                    ps = [a[0] * b[0], a[0] * b[1], a[1] * b[0], a[1] * b[1]]
                    r = (min(ps), max(ps))
            elif k == z3.Z3_OP_UMINUS:
                a = self.int_range(ch[0], depth + 1)
                if a:
                    r = (-a[1], -a[0])
        self._range_cache[key] = r if r is not None else 0
        self._keepalive.append(t)
        return r

    def axis_check(self, i, dim, node, g):
        """bounds event for index i on an axis of length dim; returns nothing"""
        if i is UNDEF:
            self.event("UnboundLocalError", True, node, g)
            return
        if is_sym(i) and not isinstance(i, NF):
            r = self.int_range(i)
            if r is not None and r[0] >= 0 and r[1] < dim:
                return
        if not is_sym(i):
            if i < 0 and self.directives["wraparound"]:
                return
            if i < 0 or i >= dim:
                self.event("IndexError" if self.directives["boundscheck"] else "OOB", True, node, g)
            return
        self.event("IndexError" if self.directives["boundscheck"] else "OOB",
                   or_(lt(i, 0), ge(i, dim)), node, g)

    def read_index(self, base, idx, node, g):
        if isinstance(base, PSel):
            out = None
            for c, l in reversed(base.exclusive()):
                gc = and_(g, c)
                if gc is False:
                    continue
                v = self.read_index(l, idx, node, gc)
                out = v if out is None else self.merge(c, v, out)
            return UNDEF if out is None else out
        if isinstance(base, PList):
            if len(idx) != 1:
                raise Unsupported("multi-index on list")
            i = idx[0]
            items = base.items
            if not is_sym(i):
                if not base.plain():
                    raise Unsupported("index into guarded list")
                if i < 0:
                    i += len(items)
                if i < 0 or i >= len(items):
                    self.event("IndexError", True, node, g)
                    return UNDEF
                return items[i][1]
            if not base.plain():
                raise Unsupported("index into guarded list")
            self.event("IndexError", or_(lt(i, -len(items)), ge(i, len(items))), node, g)
            out = None
            for k in range(len(items) - 1, -1, -1):
                out = items[k][1] if out is None else self.merge(eq(i, k), items[k][1], out)
            return UNDEF if out is None else out
        if isinstance(base, (list, tuple)):
            i = idx[0]
            if is_sym(i):
                out = None
                self.event("IndexError", or_(lt(i, 0), ge(i, len(base))), node, g)
                for k in range(len(base) - 1, -1, -1):
                    out = base[k] if out is None else self.merge(eq(i, k), base[k], out)
                return out
            return base[i]
        if not isinstance(base, Arr):
            raise Unsupported(f"index into {type(base)}")
        return self.arr_read(base, idx, node, g)

    def arr_read(self, a, idx, node, g):
        if len(idx) > a.ndim:
            self.event("IndexError", True, node, g)
            return UNDEF
        # expand slices / fancy / partial index into a list of concrete-or-symbolic coordinates
        axes = []
        for k in range(a.ndim):
            if k < len(idx):
                axes.append(idx[k])
            else:
                axes.append(("slice", None, None))
        shape_out = []
        choices = []
        for k, ax in enumerate(axes):
            if isinstance(ax, tuple) and ax[0] == "slice":
                lo = 0 if ax[1] is None else ax[1]
                hi = a.shape[k] if ax[2] is None else ax[2]
                if is_sym(lo) or is_sym(hi):
                    raise Unsupported("symbolic slice")
                lo = max(0, lo if lo >= 0 else lo + a.shape[k])
                hi = min(a.shape[k], hi if hi >= 0 else hi + a.shape[k])
                rng = list(range(lo, hi))
                shape_out.append(len(rng))
                choices.append(rng)
            elif isinstance(ax, tuple) and ax[0] == "fancy":
                for i in ax[1]:
                    self.axis_check(i, a.shape[k], node, g)
                shape_out.append(len(ax[1]))
                choices.append(ax[1])
            else:
                ax = sx.b2i(ax)
                if isinstance(ax, NF) or (is_sym(ax) and not ax.is_int()) or isinstance(ax, (float, Fraction)):
                    ax = sx.trunc(ax)
                self.axis_check(ax, a.shape[k], node, g)
                choices.append(ax)
        if not shape_out:
            v = self.cell_read(a, choices)
            if self.symbolic and isinstance(v, z3.ExprRef) and g is not True:
                v = self.strip(v, g)
            return v
        # build result array
        import itertools
        lists = [c if isinstance(c, list) else [c] for c in choices]
        vals = [self.cell_read(a, list(combo)) for combo in itertools.product(*lists)]
        if len(shape_out) == 1:
            return vals
        return Arr(shape_out, vals, a.dtype)

    def cell_read(self, a, coords):
        """coords: per-axis int or symbolic int (already bounds-checked as events)"""
        if any(is_sym(c) for c in coords):
            key = (id(a), a.version, tuple(c.get_id() if isinstance(c, z3.ExprRef) else c for c in coords))
            hit = self._read_cache.get(key)
            if hit is not None:
                return hit[0]
            v = self._cell_read(a, coords)
            self._read_cache[key] = (v, a, list(coords))
            return v
        return self._cell_read(a, coords)

    def _cell_read(self, a, coords):
        st = a.strides()

        def rec(k, off):
            if k == a.ndim:
                return a.data[off]
            c = coords[k]
            if not is_sym(c):
                if c < 0 or c >= a.shape[k]:
                    return UNDEF if a.shape[k] == 0 else rec(k + 1, off + (c % a.shape[k]) * st[k])
                return rec(k + 1, off + c * st[k])
            out = None
            for i in range(a.shape[k] - 1, -1, -1):
                v = rec(k + 1, off + i * st[k])
                if out is None:
                    out = v
                else:
                    out = self.merge(eq(c, i), v, out)
            return UNDEF if out is None else out
        return rec(0, 0)

    def write_index(self, base, idx, v, node, g):
        if isinstance(base, PList):
            i = idx[0]
            if is_sym(i) or not base.plain():
                raise Unsupported("symbolic list store")
            old = base.items[i][1]
            base.items[i] = (True, self.merge(g, v, old))
            return
        if not isinstance(base, Arr):
            raise Unsupported(f"store into {type(base)}")
        a = base
        axes = list(idx) + [("slice", None, None)] * (a.ndim - len(idx))
        ct = ("int", 64) if a.is_int() else (("float", 32 if a.dtype == "float32" else 64) if a.dtype.startswith("float") else ("obj", 0))
        simple = all(not isinstance(ax, tuple) for ax in axes)
        if simple:
            coords = []
            for k, ax in enumerate(axes):
                ax = sx.b2i(ax)
                if isinstance(ax, (float, Fraction)) or (is_sym(ax) and not isinstance(ax, NF) and not ax.is_int()):
                    ax = sx.trunc(ax)
                self.axis_check(ax, a.shape[k], node, g)
                coords.append(ax)
            g = and_(g, not_(self.dead))
            self.cell_write(a, coords, self.coerce(v, ct), g)
            return
        # slices / fancy: enumerate target cells, values from sequence
        import itertools
        lists = []
        for k, ax in enumerate(axes):
            if isinstance(ax, tuple) and ax[0] == "slice":
                lo = 0 if ax[1] is None else ax[1]
                hi = a.shape[k] if ax[2] is None else ax[2]
                lists.append(list(range(lo, hi)))
            elif isinstance(ax, tuple):
                for i in ax[1]:
                    self.axis_check(i, a.shape[k], node, g)
                lists.append(ax[1])
            else:
                self.axis_check(ax, a.shape[k], node, g)
                lists.append([ax])
        cells = list(itertools.product(*lists))
        if isinstance(v, (list, tuple, Arr, PList)):
            vals = v.data if isinstance(v, Arr) else self.seq_values(v)
            if len(vals) != len(cells):
                raise Unsupported("shape mismatch in slice store")
        else:
            vals = [v] * len(cells)
        g = and_(g, not_(self.dead))
        for c, x in zip(cells, vals):
            self.cell_write(a, list(c), self.coerce(x, ct), g)

    def cell_write(self, a, coords, v, g):
        a.version += 1
        st = a.strides()
        if all(not is_sym(c) for c in coords):
            if any(c < 0 or c >= a.shape[k] for k, c in enumerate(coords)):
                return
            off = sum(c * s for c, s in zip(coords, st))
            a.data[off] = v if g is True else self.merge(g, v, a.data[off])
            return
        import itertools
        ranges = [[c] if not is_sym(c) else list(range(a.shape[k])) for k, c in enumerate(coords)]
        for combo in itertools.product(*ranges):
            if any(c < 0 or c >= a.shape[k] for k, c in enumerate(combo)):
                continue
            cond = and_(g, *[eq(c, i) for c, i in zip(coords, combo) if is_sym(c)])
            if cond is False:
                continue
            off = sum(c * s for c, s in zip(combo, st))
            a.data[off] = self.merge(cond, v, a.data[off])

    # ------------------------------------------------------------------ expressions
    def ev(self, n, frame, g):
        m = getattr(self, "e_" + type(n).__name__, None)
        if m is None:
            raise Unsupported(f"expression {type(n).__name__} at {self.mod.where(n)}")
        return m(n, frame, g)

    def e_IntNode(self, n, frame, g):
        return int(n.value.rstrip("LlUu"), 0)

    def e_FloatNode(self, n, frame, g):
        if self.domain == "F":
            return sx.fp_const(Fraction(n.value), sx.F64)
        return Fraction(n.value) if self.symbolic else float(n.value)

    def e_BoolNode(self, n, frame, g):
        return bool(n.value)

    def e_NoneNode(self, n, frame, g):
        return None

    def e_NullNode(self, n, frame, g):
        return None

    def e_UnicodeNode(self, n, frame, g):
        return str(n.value)

    e_StringNode = e_UnicodeNode
    e_BytesNode = e_UnicodeNode
    e_IdentifierStringNode = e_UnicodeNode

    def conj_ids(self, G):
        """ids of the conjuncts of guard G (flattened), cached"""
        if not isinstance(G, z3.BoolRef):
            return ()
        key = G.get_id()
        c = self._conj_cache.get(key)
        if c is not None:
            return c
        out = set()
        stack = [G]
        while stack:
            t = stack.pop()
            if z3.is_and(t):
                stack.extend(t.children())
            else:
                out.add(t.get_id())
        self._conj_cache[key] = out
        self._keepalive.append(G)
        return out

    def strip(self, v, G):
        """simplify nested If(c, a, b) whose condition (or its negation) is a conjunct of the current guard"""
        if G is True or not isinstance(v, z3.ExprRef):
            return v
        ids = None
        k = 0
        while isinstance(v, z3.ExprRef) and z3.is_app(v) and v.decl().kind() == z3.Z3_OP_ITE and k < 50:
            if ids is None:
                ids = self.conj_ids(G)
                if not ids:
                    return v
            c = v.arg(0)
            if c.get_id() in ids:
                v = v.arg(1)
            elif z3.is_not(c) and False:
                break
            else:
                nc = c.arg(0) if z3.is_not(c) else z3.Not(c)
                if nc.get_id() in ids:
                    v = v.arg(2)
                elif z3.is_and(c):
                    if self.conj_ids(c) <= ids:
                        v = v.arg(1)
                    else:
                        break
                else:
                    break
            k += 1
        return sx.conc(v) if isinstance(v, z3.ExprRef) else v

    def e_NameNode(self, n, frame, g):
        nm = n.name
        if nm in frame.env:
            v = frame.env[nm]
            if v is UNDEF:
                self.event("UnboundLocalError", True, n, g)
            elif self.symbolic and isinstance(v, z3.ExprRef):
                v = self.strip(v, g)
            return v
        if nm in self.mod.funcs:
            return self.mod.funcs[nm]
        if nm in self.mod.globals:
            gv = self.mod.globals[nm]
            if isinstance(gv, tuple) and gv[0] == "alias":
                return ("builtin", gv[1])
            return gv
        if nm in ("True", "False", "None"):
            return {"True": True, "False": False, "None": None}[nm]
        if nm in ("NODE", "DEGREE", "FIELD", "DFIELD", "MASK", "LAG", "ADJ", "WEIGHT", "DWEIGHT", "BOOLTYPE", "INT8TYPE", "INT16TYPE",
                  "INT32TYPE", "INT64TYPE", "FLOAT32TYPE", "FLOAT64TYPE"):
            return ("dtype", self.mod.ctypedefs.get(nm + "_t", nm))
        return ("builtin", nm)

    def e_AttributeNode(self, n, frame, g):
        d = dotted(n)
        root = d.split(".")[0] if d else None
        if d and root not in frame.env:
            return ("builtin", d)
        obj = self.ev(n.obj, frame, g)
        return ("method", obj, n.attribute)

    def e_TupleNode(self, n, frame, g):
        return tuple(self.ev(a, frame, g) for a in n.args)

    def e_ListNode(self, n, frame, g):
        return PList([self.ev(a, frame, g) for a in n.args])

    def e_TypecastNode(self, n, frame, g):
        v = self.ev(n.operand, frame, g)
        if self.is_ptr_decl(n.declarator):
            if isinstance(v, Ptr):
                return Ptr(v.arr, v.off, self.type_name(n.base_type))
            return v
        return self.coerce(v, self.ctype(self.type_name(n.base_type)))

    def e_IndexNode(self, n, frame, g):
        base = self.ev(n.base, frame, g)
        idx = self.ev_index(n.index, frame, g)
        return self.read_index(base, idx, n, g)

    def e_NotNode(self, n, frame, g):
        return not_(truth(self.ev(n.operand, frame, g)))

    def e_UnaryMinusNode(self, n, frame, g):
        return neg(self.ev(n.operand, frame, g))

    def e_UnaryPlusNode(self, n, frame, g):
        return self.ev(n.operand, frame, g)

    def e_BoolBinopNode(self, n, frame, g):
        a = truth(self.ev(n.operand1, frame, g))
        if n.operator == "and":
            if a is False:
                return False
            b = truth(self.ev(n.operand2, frame, and_(g, a)))
            return and_(a, b)
        if a is True:
            return True
        b = truth(self.ev(n.operand2, frame, and_(g, not_(a))))
        return or_(a, b)

    def e_CondExprNode(self, n, frame, g):
        c = truth(self.ev(n.test, frame, g))
        a = self.ev(n.true_val, frame, and_(g, c)) if c is not False else None
        b = self.ev(n.false_val, frame, and_(g, not_(c))) if c is not True else None
        if c is True:
            return a
        if c is False:
            return b
        return self.merge(c, a, b)

    def e_PrimaryCmpNode(self, n, frame, g):
        a = self.ev(n.operand1, frame, g)
        res = True
        node = n
        while node is not None:
            b = self.ev(node.operand2, frame, g)
            res = and_(res, self.cmp(node.operator, a, b))
            a = b
            node = node.cascade
        return res

    def cmp(self, op, a, b):
        if op in ("is", "is_not"):
            r = (a is b) or (a is None and b is None)
            return r if op == "is" else not r
        if isinstance(a, (FuncRef,)) or isinstance(b, FuncRef) or a is None or b is None:
            r = a is b
            return r if op == "==" else (not r)
        return {"==": eq, "!=": ne, "<": lt, "<=": le, ">": gt, ">=": ge}[op](a, b)

    def binop(self, op, a, b, node, g):
        if isinstance(a, Arr) or isinstance(b, Arr):
            n = len(a.data) if isinstance(a, Arr) else len(b.data)
            A = a.data if isinstance(a, Arr) else [a] * n
            B = b.data if isinstance(b, Arr) else [b] * n
            ref = a if isinstance(a, Arr) else b
            dt = "float64" if (op == "/" or not (getattr(a, "is_int", lambda: not isinstance(a, Arr) and isinstance(a, int))() and
                                                 getattr(b, "is_int", lambda: not isinstance(b, Arr) and isinstance(b, int))())) else ref.dtype
            return Arr(ref.shape, [self.binop(op, x, y, node, g) for x, y in zip(A, B)], dt)
        if op == "+":
            return add(a, b)
        if op == "-":
            return sub(a, b)
        if op == "*":
            if isinstance(a, z3.ArithRef) and isinstance(b, z3.ArithRef):
                # keep arithmetic linear: case-split a small-range integer factor
                for p_, q_ in ((b, a), (a, b)):
                    r = self.int_range(p_) if p_.is_int() else None
                    if r is not None and r[1] - r[0] <= 16:
                        out = mul(q_, r[1])
                        for v in range(r[1] - 1, r[0] - 1, -1):
                            out = ite(eq(p_, v), mul(q_, v), out)
                        return out
            return mul(a, b)
        if op == "/":
            if isinstance(b, z3.ArithRef) and b.is_int() and is_sym(a) is not None:
                r = self.int_range(b)
                if r is not None and r[1] - r[0] <= 64 and not isinstance(a, NF):
                    if not self.directives["cdivision"]:
                        self.event("ZeroDivisionError", eq(b, 0), node, g)
                    vals = [v for v in range(r[0], r[1] + 1) if v != 0]
                    if not vals:
                        return UNDEF
                    out = div(a, vals[-1])
                    for v in reversed(vals[:-1]):
                        out = ite(eq(b, v), div(a, v), out)
                    return out
            bz = eq(b.val if isinstance(b, NF) else b, 0)
            if isinstance(b, NF):
                bz = and_(not_(b.nan), bz)
            if not self.directives["cdivision"]:
                self.event("ZeroDivisionError", bz, node, g)
            if bz is True:
                return UNDEF
            r = div(a, b)
            if not self.symbolic and isinstance(r, Fraction):
                r = float(r)
            return r
        if op == "//":
            self.event("ZeroDivisionError", eq(b, 0), node, g)
            return sx.floordiv(a, b)
        if op == "%":
            if isinstance(a, str):
                return a
            self.event("ZeroDivisionError", eq(b, 0), node, g)
            return sx.mod(a, b)
        if op == "**":
            if not is_sym(b):
                if b == 2:
                    return mul(a, a)
                if b == Fraction(1, 2) or b == 0.5:
                    return self.sqrt(a)
                if isinstance(b, int) and 0 <= b <= 4:
                    r = 1
                    for _ in range(b):
                        r = mul(r, a)
                    return r
            raise Unsupported("general power")
        raise Unsupported(f"operator {op}")

    def _bin(self, n, frame, g):
        a = self.ev(n.operand1, frame, g)
        b = self.ev(n.operand2, frame, g)
        return self.binop(n.operator, a, b, n, g)

    e_AddNode = e_SubNode = e_MulNode = e_DivNode = e_ModNode = e_PowNode = e_IntBinopNode = _bin
    e_NumBinopNode = _bin

    def sqrt(self, x):
        if sx.is_fp(x):
            return z3.fpSqrt(sx.RNE, x)
        if isinstance(x, NF):
            return NF(x.nan, self.sqrt(x.val))
        if not is_sym(x):
            if isinstance(x, (int, Fraction)):
                r = Fraction(x)
                num, den = math.isqrt(r.numerator), math.isqrt(r.denominator)
                if num * num == r.numerator and den * den == r.denominator:
                    return Fraction(num, den) if self.symbolic else num / den
                if not self.symbolic:
                    return math.sqrt(x)
            else:
                return math.sqrt(x)
        s = self.fresh("real", "sqrt")
        x = sx.lift(x) if not is_sym(x) else x
        self.assumptions.append(z3.And(s >= 0, s * s == x))
        return s

    # ------------------------------------------------------------------ calls
    def e_SimpleCallNode(self, n, frame, g):
        f = self.ev(n.function, frame, g)
        args = [self.ev(a, frame, g) for a in n.args] if not self.is_print(f) else []
        return self.do_call(f, args, {}, n, frame, g)

    def e_GeneralCallNode(self, n, frame, g):
        f = self.ev(n.function, frame, g)
        args = list(self.ev(n.positional_args, frame, g))
        kw = {}
        if n.keyword_args is not None:
            for kv in n.keyword_args.key_value_pairs:
                kw[self.ev(kv.key, frame, g)] = self.ev(kv.value, frame, g)
        return self.do_call(f, args, kw, n, frame, g)

    def is_print(self, f):
        return isinstance(f, tuple) and f[0] == "builtin" and f[1] == "print"

    def draw(self, kind, arg, g):
        if self.rand is not None:
            return self.rand(kind, arg)
        if kind == "unit":
            v = self.fresh("real", "u")
            self.assumptions.append(z3.And(v >= 0, v < 1))
        else:
            v = self.fresh("int", "r")
            self.assumptions.append(z3.And(v >= 0, v < (sx.lift(arg) if not is_sym(arg) else arg)))
        self.draws.append((kind, v))
        return v

    def do_call(self, f, args, kw, n, frame, g):
        if isinstance(f, FuncRef):
            return self.call_func(f, args, g, kw)
        if f is None:
            self.event("TypeError", True, n, g)
            return UNDEF
        if isinstance(f, tuple) and f[0] == "method":
            return self.method(f[1], f[2], args, kw, n, g)
        if not (isinstance(f, tuple) and f[0] == "builtin"):
            raise Unsupported(f"call of {f!r}")
        name = f[1]
        if name in self.mod.externs:
            if self.extern is None:
                raise Unsupported(f"extern C function {name}")
            return self.extern(name, args, self, g)
        if name == "abs":
            return sx.abs_(args[0])
        if name == "min" and len(args) == 2:
            return sx.min_c(args[0], args[1])
        if name == "max" and len(args) == 2:
            return sx.max_c(args[0], args[1])
        if name in ("np.min", "np.max", "min", "max") and len(args) == 1:
            vals = self.seq_values(args[0]) if not isinstance(args[0], Arr) else args[0].data
            out = vals[0]
            for v in vals[1:]:
                out = (ite(lt(v, out), v, out) if name.endswith("min") else ite(gt(v, out), v, out))
            return out
        if name == "int":
            return sx.trunc(args[0])
        if name == "float":
            v = sx.to_real(args[0])
            return float(v) if (not self.symbolic and not is_sym(v)) else v
        if name == "len":
            x = args[0]
            if isinstance(x, Arr):
                return x.shape[0]
            if isinstance(x, PList):
                return len(x.items) if x.plain() else x.sym_len()
            if isinstance(x, PSel):
                out = None
                for c, l in reversed(x.exclusive()):
                    v = len(l.items) if l.plain() else l.sym_len()
                    out = v if out is None else ite(c, v, out)
                return out
            return len(x)
        if name == "sqrt":
            return self.sqrt(args[0])
        if name in ("floor", "np.floor"):
            return sx.floor_(args[0])
        if name in ("np.zeros", "np.ones", "np.empty"):
            shape = args[0]
            dt = kw.get("dtype", args[1] if len(args) > 1 else ("dtype", "float64"))
            dts = dt[1] if isinstance(dt, tuple) else "float64"
            if isinstance(shape, (tuple, list)):
                shape = list(shape)
            elif isinstance(shape, PList):
                shape = shape.values()
            else:
                shape = [shape]
            if any(is_sym(x) for x in shape):
                raise Unsupported("symbolic array shape")
            if any(x < 0 for x in shape):
                self.event("ValueError", True, n, g)
                return UNDEF
            fillv = 0 if name != "np.ones" else 1
            a = Arr.full(tuple(shape), fillv, dts)
            if name == "np.empty":
                a.data = [UNDEF] * len(a.data)
            return a
        if name == "np.array":
            src = args[0]
            dt = kw.get("dtype", ("dtype", "float64"))
            dts = dt[1] if isinstance(dt, tuple) else "float64"

            def nest(x):
                if isinstance(x, PList):
                    return [nest(y) for y in x.values()]
                return x
            src = nest(src)
            if src == []:
                return Arr((0,), [], dts)
            if src == [[]]:
                return Arr((1, 0), [], dts)
            return Arr.of(src, dts)
        if name in ("rd.random", "random.random", "np.random.random"):
            return self.draw("unit", None, g)
        if name in ("randint", "rd.randint", "np.random.randint"):
            if "size" in kw:
                shape = kw["size"]
                shape = list(shape) if isinstance(shape, (tuple, list)) else [shape]
                k = 1
                for s_ in shape:
                    k *= s_
                return Arr(shape, [self.draw("int", args[0], g) for _ in range(k)], "int64")
            return self.draw("int", args[0], g)
        if name in ("print", "random.seed", "datetime.now", "rd.seed"):
            return None
        if name == "cnp.PyArray_DATA":
            return Ptr(args[0], 0)
        raise Unsupported(f"call of {name} at {self.mod.where(n)}")

    def method(self, obj, attr, args, kw, n, g):
        if isinstance(obj, Arr):
            if attr == "fill":
                v = args[0]
                ct = ("int", 64) if obj.is_int() else ("float", 64)
                v = self.coerce(v, ct)
                obj.version += 1
                for k in range(len(obj.data)):
                    obj.data[k] = v if g is True else self.merge(g, v, obj.data[k])
                return None
            if attr in ("min", "max"):
                out = obj.data[0]
                for v in obj.data[1:]:
                    out = ite(lt(v, out), v, out) if attr == "min" else ite(gt(v, out), v, out)
                return out
            if attr == "copy":
                return obj.copy()
        if isinstance(obj, PList):
            if attr == "append":
                obj.append(args[0], g)
                return None
        if isinstance(obj, PSel) and attr == "append":
            for c, l in obj.exclusive():
                l.append(args[0], and_(g, c))
            return None
        raise Unsupported(f"method {attr} on {type(obj).__name__} at {self.mod.where(n)}")


# ======================================================================== convenience
def sym_int_arr(shape, prefix, dtype="int32"):
    n = 1
    for s in shape:
        n *= s
    return Arr(shape, [z3.Int(f"{prefix}{k}") for k in range(n)], dtype, prefix)


def sym_real_arr(shape, prefix, dtype="float64"):
    n = 1
    for s in shape:
        n *= s
    return Arr(shape, [z3.Real(f"{prefix}{k}") for k in range(n)], dtype, prefix)


def sym_adj(n, prefix="a", directed=False, diag=0, dtype="int8"):
    """adjacency as If(bit,1,0) ints; returns (Arr, bits dict)"""
    bits = {}
    data = []
    for i in range(n):
        for j in range(n):
            if i == j:
                data.append(diag)
                continue
            key = (i, j) if (directed or i < j) else (j, i)
            if key not in bits:
                bits[key] = z3.Bool(f"{prefix}_{key[0]}_{key[1]}")
            data.append(z3.If(bits[key], z3.IntVal(1), z3.IntVal(0)))
    return Arr((n, n), data, dtype, prefix), bits


def from_numpy(a, symbolic_exact=True):
    import numpy as np
    a = np.asarray(a)
    dt = str(a.dtype)
    if a.dtype.kind in "iub":
        data = [int(x) for x in a.ravel()]
    elif symbolic_exact:
        data = [Fraction(float(x)) if x == x and abs(x) != float("inf") else NF(True, 0) if x != x else float(x)
                for x in a.ravel()]
    else:
        data = [float(x) for x in a.ravel()]
    return Arr(a.shape, data, "bool" if dt == "bool" else dt)


def to_numpy(a, dtype=None):
    import numpy as np
    out = np.array([float(x) if isinstance(x, (Fraction,)) else (0 if x is UNDEF else x) for x in a.data],
                   dtype=dtype or (a.dtype if a.dtype != "object" else float))
    return out.reshape(a.shape)
