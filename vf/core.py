"""Plumbing shared by all checks: solver wrapper, obligation runner, evidence, replay, known findings."""
import json
import multiprocessing as mp
import os
import signal
import subprocess
import sys
import time
import traceback
from fractions import Fraction

import z3

VERIF = os.path.dirname(os.path.dirname(os.path.abspath(__file__)))
REPO = os.environ.get("VERIF_REPO", "/repo")
SEED = int(os.environ.get("VERIF_SEED", "0") or 0)

HELD, VIOLATED, INCONCLUSIVE = "held", "violated", "inconclusive"


# ---------------------------------------------------------------------------------------- solver
class Q:
    """one solver query; keeps statistics for evidence"""
    log = []          # per-process list of query records

    @staticmethod
    def check(assertions, timeout_s=60, tag="", want_model=True, tactic=None, logic=None):
        if tactic:
            s = z3.Tactic(tactic).solver()
        elif logic:
            s = z3.SolverFor(logic)
        else:
            s = z3.Solver()
        s.set("timeout", int(timeout_s * 1000))
        try:
            s.set("random_seed", SEED % (2 ** 30))
        except z3.Z3Exception:
            pass
        n = 0
        for a in assertions:
            if a is True:
                continue
            if a is False:
                a = z3.BoolVal(False)
            s.add(a)
            n += 1
        t0 = time.time()
        r = s.check()
        dt = time.time() - t0
        verdict = str(r)
        model = None
        if verdict == "sat" and want_model:
            model = s.model()
        rec = {"tag": tag, "verdict": verdict, "seconds": round(dt, 3), "asserts": n}
        if verdict == "unknown":
            rec["reason"] = s.reason_unknown()
        # second opinion (thorough tier, or VERIF_CROSS=1): a sample of the decided queries is re-run under cvc5; a contradiction
        # between the two solvers makes the query inconclusive
        if verdict in ("sat", "unsat") and Q.want_cross():
            other = cross_check(s)
            rec["cvc5"] = other
            if other in ("sat", "unsat") and other != verdict:
                rec["reason"] = f"solvers disagree (z3 {verdict}, cvc5 {other})"
                rec["verdict"] = verdict = "unknown"
                model = None
        Q.log.append(rec)
        return verdict, model

    ncross = 0

    @staticmethod
    def want_cross():
        if not (os.environ.get("VERIF_CROSS") == "1" or os.environ.get("VERIF_TIER") == "thorough"):
            return False
        k = len(Q.log)
        # the first few decided queries of every worker process, then every 40th
        if Q.ncross < 3 or k % 40 == 0:
            Q.ncross += 1
            return True
        return False


def cross_check(solver, limit_ms=15000):
    """re-run the assertions of a z3 solver under cvc5 (SMT-LIB2 text); returns 'sat' | 'unsat' | 'unknown' | 'error:...'"""
    try:
        import cvc5
        txt = solver.to_smt2()
        if len(txt) > 400000:
            return "skipped (query too large)"
        slv = cvc5.Solver()
        slv.setOption("tlimit-per", str(limit_ms))
        slv.setLogic("ALL")
        prs = cvc5.InputParser(slv)
        prs.setStringInput(cvc5.InputLanguage.SMT_LIB_2_6, txt, "q")
        sm = prs.getSymbolManager()
        out = "unknown"
        while True:
            cmd = prs.nextCommand()
            if cmd.isNull():
                break
            r = str(cmd.invoke(slv, sm)).strip()
            if r in ("sat", "unsat", "unknown"):
                out = r
        return out
    except Exception as e:  # noqa
        return "error:" + type(e).__name__


def alt_dir():
    """scratch evidence / replay directory for runs against a tree other than /repo (one per tree, so concurrent runs do not collide)"""
    import hashlib
    tree = os.path.abspath(os.environ.get("VERIF_REPO", "/repo"))
    return "/var/tmp/pyunicorn-verif-alt-evidence-" + hashlib.sha1(tree.encode()).hexdigest()[:10]


def prove(hyps, goal, timeout_s=60, tag=""):
    """is  /\\ hyps => goal  valid?  returns ('unsat'|'sat'|'unknown', model)"""
    from . import sx
    return Q.check(list(hyps) + [sx.not_(goal)], timeout_s, tag)


def free_reals(assertions):
    """free real-sorted constants of a list of assertions"""
    seen = {}
    stack = [a for a in assertions if isinstance(a, z3.ExprRef)]
    visited = set()
    while stack:
        t = stack.pop()
        i = t.get_id()
        if i in visited:
            continue
        visited.add(i)
        if z3.is_const(t) and t.decl().kind() == z3.Z3_OP_UNINTERPRETED and z3.is_real(t):
            seen[str(t)] = t
        else:
            stack.extend(t.children())
    return list(seen.values())


def normalised_model(assertions, timeout_s=30, tag="normalise"):
    """re-solve a satisfiable query for a replayable witness: every real input a multiple of 1/4 in [-8, 8] (exactly
    representable in float32, so ties and strict inequalities survive the real float code and differences are not
    vanishingly small).  Returns a model or None (then the raw model is used)."""
    vs = free_reals(assertions)
    extra = []
    for v in vs:
        k = z3.Int(f"nrm_{v}")
        extra += [v * 4 == z3.ToReal(k), k >= -32, k <= 32]
    verdict, m = Q.check(list(assertions) + extra, timeout_s, tag=tag)
    return m if verdict == "sat" else None


def jsonable(x):
    if isinstance(x, Fraction):
        return str(x) if x.denominator != 1 else int(x)
    if isinstance(x, float):
        if x != x:
            return "nan"
        if x in (float("inf"), float("-inf")):
            return "inf" if x > 0 else "-inf"
        return x
    if isinstance(x, (list, tuple)):
        return [jsonable(y) for y in x]
    if isinstance(x, dict):
        return {str(k): jsonable(v) for k, v in x.items()}
    if hasattr(x, "item") and not isinstance(x, (str, bytes)):
        try:
            return jsonable(x.item())
        except Exception:
            return jsonable(x.tolist())
    if hasattr(x, "tolist"):
        return jsonable(x.tolist())
    if isinstance(x, (int, str, bool)) or x is None:
        return x
    return str(x)


def unjson_num(x):
    """inverse of jsonable for numbers"""
    if isinstance(x, str):
        if x == "nan":
            return float("nan")
        if x == "inf":
            return float("inf")
        if x == "-inf":
            return float("-inf")
        if "/" in x:
            return Fraction(x)
        return x
    if isinstance(x, list):
        return [unjson_num(y) for y in x]
    return x


def to_float(x):
    if isinstance(x, dict):
        return {k: to_float(v) for k, v in x.items()}
    x = unjson_num(x)
    if isinstance(x, list):
        return [to_float(y) for y in x]
    if isinstance(x, Fraction):
        return float(x)
    return x


# ---------------------------------------------------------------------------------------- results
def result(name, status, **kw):
    r = {"obligation": name, "status": status}
    r.update(kw)
    return r


def _worker(args):
    fn, kwargs, budget = args
    Q.log = []
    t0 = time.time()
    old = signal.signal(signal.SIGALRM, _alarm)
    signal.alarm(int(budget))
    try:
        out = fn(**kwargs)
        if isinstance(out, dict):
            out = [out]
    except _Timeout:
        out = [result(kwargs.get("name", fn.__name__), INCONCLUSIVE, reason=f"budget of {budget}s exhausted")]
    except BaseException as e:  # noqa
        tb = traceback.format_exc(limit=6)
        out = [result(kwargs.get("name", fn.__name__), INCONCLUSIVE,
                      reason=f"{type(e).__name__}: {e}", traceback=tb[-1500:])]
    finally:
        signal.alarm(0)
        signal.signal(signal.SIGALRM, old)
    dt = time.time() - t0
    for o in out:
        o.setdefault("seconds", round(dt, 2))
    if out:
        out[0]["queries"] = list(Q.log)
    return out


class _Timeout(BaseException):
    pass


def _alarm(sig, frm):
    raise _Timeout()


def run_obligations(obs, nproc=None):
    """obs: list of (fn, kwargs, budget_s).  Returns flat list of result dicts (order preserved)."""
    nproc = nproc or min(16, os.cpu_count() or 4)
    if not obs:
        return []
    if nproc == 1 or len(obs) == 1:
        res = [_worker(o) for o in obs]
    else:
        ctx = mp.get_context("fork")
        with ctx.Pool(min(nproc, len(obs)), maxtasksperchild=8) as pool:
            res = pool.map(_worker, obs, chunksize=1)
    flat = []
    for r in res:
        flat.extend(r)
    return flat


# ---------------------------------------------------------------------------------------- known findings
def load_known():
    p = os.path.join(VERIF, "known_findings.json")
    if not os.path.exists(p):
        return []
    return json.load(open(p))


def known_lookup(prop, signature):
    for k in load_known():
        if k.get("property") == prop and k.get("signature") == signature and k.get("status") == "known":
            return k
    return None


# ---------------------------------------------------------------------------------------- replay
def write_replay(prop, signature, witness):
    d = os.path.join(VERIF, "replays")
    if os.path.realpath(REPO) != "/repo":
        d = os.path.join(alt_dir(), "replays")
    os.makedirs(d, exist_ok=True)
    safe = "".join(c if c.isalnum() or c in "-_." else "_" for c in signature)[:120]
    path = os.path.join(d, f"{safe}.json")
    w = dict(witness)
    w["property"] = prop
    w["signature"] = signature
    with open(path, "w") as f:
        json.dump(jsonable(w), f, indent=1, sort_keys=True)
    return path


def run_replay(prop, path, timeout_s=300):
    """run the replay in a fresh subprocess against the scratch build; returns (reproduced, output)"""
    env = dict(os.environ)
    env["VERIF_REPLAY_CHILD"] = "1"
    try:
        r = subprocess.run([sys.executable, "-m", "vf.cli", prop, "--replay", path], cwd=VERIF, env=env,
                           stdout=subprocess.PIPE, stderr=subprocess.STDOUT, text=True, timeout=timeout_s)
    except subprocess.TimeoutExpired:
        return False, "replay timed out"
    out = r.stdout[-3000:]
    if r.returncode == 1 and "VIOLATION" in r.stdout:
        return True, out
    if r.returncode < 0:
        return ("crash", out + f"\n[replay process died with signal {-r.returncode}]")
    return False, out


# ---------------------------------------------------------------------------------------- evidence
def write_evidence(prop, tier, results, wall, extra):
    os.makedirs(os.path.join(VERIF, "evidence"), exist_ok=True)
    queries = []
    for r in results:
        queries.extend(r.get("queries", []))
    n_held = sum(1 for r in results if r["status"] == HELD)
    n_inc = sum(1 for r in results if r["status"] == INCONCLUSIVE)
    n_vio = sum(1 for r in results if r["status"] == VIOLATED and not r.get("known"))
    n_known = sum(1 for r in results if r.get("known"))
    nontrivial = sum(1 for r in results if r["status"] in (HELD, VIOLATED) and r.get("twin", "sat") == "sat")
    samples = []
    for r in results[:400]:
        s = {k: r[k] for k in ("obligation", "status", "bound", "functions", "twin", "seconds", "reason",
                               "detail", "signature", "replay", "known") if k in r}
        if r.get("queries"):
            s["queries"] = r["queries"][:12]
        samples.append(s)
    funcs = sorted({f for r in results for f in r.get("functions", [])})
    ev = {
        "property_id": prop,
        "tier": tier,
        "seed": SEED,
        "level": "model_checking",
        "wall_s": round(wall, 2),
        "violations": n_vio,
        "assumptions": extra.get("assumptions", []),
        "coverage": {
            "evaluations": len(queries),
            "distinct_nontrivial": nontrivial,
            "rule": extra.get("rule", "one evaluation = one SMT query discharged (verdict recorded); an obligation is "
                              "non-trivial when it was decided (unsat = held / sat + replay) and its reachability twin "
                              "(same hypotheses, goal replaced by false) is satisfiable; obligations are distinct by name"),
            "samples": samples,
            "obligations": len(results),
            "held": n_held,
            "inconclusive": n_inc,
            "known_findings": n_known,
            "functions_encoded": funcs,
            "bounds": extra.get("bounds", ""),
            "outside": extra.get("outside", []),
            "solver": {"z3": z3.get_version_string(),
                       "queries": len(queries),
                       "unsat": sum(1 for q in queries if q["verdict"] == "unsat"),
                       "sat": sum(1 for q in queries if q["verdict"] == "sat"),
                       "unknown": sum(1 for q in queries if q["verdict"] == "unknown"),
                       "seconds": round(sum(q["seconds"] for q in queries), 2),
                       "cvc5_cross_checked": sum(1 for q in queries if "cvc5" in q),
                       "cvc5_agree": sum(1 for q in queries if q.get("cvc5") in ("sat", "unsat") and q.get("cvc5") == q["verdict"]),
                       "cvc5_no_opinion": sum(1 for q in queries if "cvc5" in q and q.get("cvc5") not in ("sat", "unsat")),
                       "cvc5_disagree": sum(1 for q in queries if str(q.get("reason", "")).startswith("solvers disagree"))},
            "traces_validated_against_impl": extra.get("validated", 0),
            "validation": extra.get("validation", []),
            "replays": extra.get("replays", []),
            "source": extra.get("source", {}),
        },
    }
    path = os.path.join(VERIF, "evidence", f"{prop}.json")
    if os.path.realpath(REPO) != "/repo":
        # a run against a scratch tree (seeded change) must not overwrite the registered evidence
        os.makedirs(alt_dir(), exist_ok=True)
        path = os.path.join(alt_dir(), f"{prop}.json")
    with open(path, "w") as f:
        json.dump(jsonable(ev), f, indent=1)
    return path
