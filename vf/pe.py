"""Engine P: symbolic execution of the real Python methods of pyunicorn by proxy values.

* SV / SB wrap `vf.sx` values; arithmetic builds terms, `bool(SB)` asks the Explorer for a branch.
* SymNd is an object-dtype ndarray subclass: NumPy itself does indexing, broadcasting, dot, sum ...;
  only what object arrays cannot do is intercepted (comparisons -> arrays of SB, symbolic masks, astype).
* SSparse stands in for scipy.sparse matrices (dense backed), SGraph for the embedded igraph.Graph.
* `patched(...)` installs the shims into the *module globals* of pyunicorn modules (np, sp, to_cy, kernels).
* Explorer re-executes a harness for every feasible combination of branch decisions (DFS over prefixes).
"""
import contextlib
import itertools
import math
import types
from fractions import Fraction

import numpy as np
import z3

from . import sx
from .sx import NF, and_, ite, not_, or_

_real_np = np


class PathAbort(BaseException):
    """raised to abandon the current path (infeasible / budget)"""


class Unsupported(Exception):
    pass


# ============================================================================================ scalars
def unwrap(x):
    if isinstance(x, np.ndarray) and x.ndim == 0:
        x = x.item()
    if isinstance(x, (SV, SB)):
        return x.v
    if isinstance(x, (np.generic,)):
        return x.item()
    return x


def wrap(v):
    if isinstance(v, (bool, z3.BoolRef)):
        return SB(v) if isinstance(v, z3.BoolRef) else v
    if isinstance(v, (z3.ArithRef, NF, z3.FPRef)):
        return SV(v)
    if isinstance(v, Fraction):
        return SV(v)
    return v


def _num(x):
    """python scalar -> exact value usable by sx"""
    x = unwrap(x)
    if isinstance(x, float):
        if x != x:
            return NF(True, 0)
        if x in (math.inf, -math.inf):
            return INF if x > 0 else NINF
        fr = Fraction(x)
        if fr.denominator > 2 ** 20:
            # a python float produced by float arithmetic inside the library (0.0 + 1 ... / ...): snap to the
            # nearby small rational it stands for (a wrong snap can only yield a non-reproducing model)
            cand = fr.limit_denominator(10 ** 6)
            if abs(cand - fr) <= Fraction(1, 10 ** 12) * max(1, abs(fr)):
                return cand
        return fr
    return x


class _Inf:
    def __init__(self, sign):
        self.sign = sign

    def __repr__(self):
        return "inf" if self.sign > 0 else "-inf"


INF, NINF = _Inf(1), _Inf(-1)


class SV:
    """symbolic (or exact rational) scalar"""
    __slots__ = ("v",)
    __array_priority__ = 100.0

    def __init__(self, v):
        self.v = v.v if isinstance(v, SV) else v

    # ---- arithmetic
    def _bin(self, o, f, swap=False):
        if isinstance(o, np.ndarray):
            g = np.frompyfunc(lambda x: self._bin(x, f, swap), 1, 1)
            return SymNd(np.asarray(g(o), dtype=object))
        if isinstance(o, SSparse):
            return NotImplemented
        if isinstance(o, (complex, SC)):
            name = getattr(f, "__name__", "")
            me, ot = SC(self.v, 0), SC.of(o)
            a_, b_ = (ot, me) if swap else (me, ot)
            return {"add": lambda: a_ + b_, "sub": lambda: a_ - b_, "mul": lambda: a_ * b_, "_div": lambda: a_ / b_}[name]()
        b = _num(o)
        if isinstance(b, _Inf) or isinstance(self.v, _Inf):
            return self._inf_arith(b, f, swap)
        a = self.v
        if isinstance(b, (str, bytes, type(None), list, tuple, dict)):
            return NotImplemented
        r = f(b, a) if swap else f(a, b)
        return wrap(r) if not isinstance(r, (int,)) or isinstance(r, bool) else SV(r)

    def _inf_arith(self, b, f, swap):
        """IEEE arithmetic with an infinite operand"""
        name = getattr(f, "__name__", "")
        binf = math.inf * b.sign
        if not sx.is_sym(self.v):
            x, y = (binf, float(self.v)) if swap else (float(self.v), binf)
            try:
                r = {"add": x + y, "sub": x - y, "mul": x * y if not (x == 0 or y == 0) else math.nan}.get(name)
                if r is None:
                    r = x / y if name == "_div" else None
            except ZeroDivisionError:
                r = math.nan
            if r is None:
                raise Unsupported(f"{name} with infinity")
            return r if (r != r or abs(r) == math.inf) else SV(Fraction(r))
        # symbolic finite value
        if name == "_div" and not swap:
            return SV(0)                       # finite / inf
        if name in ("add", "sub"):
            sign = b.sign if (name == "add" or swap) else -b.sign
            return math.inf * sign
        raise Unsupported(f"{name} of a symbolic value with infinity")

    def __add__(self, o):
        return self._bin(o, sx.add)

    def __radd__(self, o):
        return self._bin(o, sx.add, True)

    def __sub__(self, o):
        return self._bin(o, sx.sub)

    def __rsub__(self, o):
        return self._bin(o, sx.sub, True)

    def __mul__(self, o):
        return self._bin(o, sx.mul)

    def __rmul__(self, o):
        return self._bin(o, sx.mul, True)

    def __truediv__(self, o):
        return self._bin(o, _div)

    def __rtruediv__(self, o):
        return self._bin(o, _div, True)

    def __floordiv__(self, o):
        return self._bin(o, sx.floordiv)

    def __mod__(self, o):
        return self._bin(o, sx.mod)

    def __neg__(self):
        return SV(sx.neg(self.v))

    def __pos__(self):
        return self

    def __abs__(self):
        return SV(sx.abs_(self.v))

    def __pow__(self, o):
        e = _num(o)
        if isinstance(e, Fraction) and e.denominator == 1:
            e = int(e)
        if isinstance(e, int):
            if e >= 0:
                r = 1
                for _ in range(e):
                    r = sx.mul(r, self.v)
                return SV(r)
            r = 1
            for _ in range(-e):
                r = sx.mul(r, self.v)
            return SV(_div(1, r))
        if e == Fraction(1, 2):
            return self.sqrt()
        if isinstance(e, Fraction) and abs(e - Fraction(1, 3)) < Fraction(1, 10 ** 12):
            return SV(root(self.v, 3))
        raise Unsupported(f"power {o}")

    def __rpow__(self, base):
        # base ** SV : uninterpreted exponential family
        return SV(ufun(f"pow_{_num(base)}", self.v))

    def sqrt(self):
        return SV(root(self.v, 2))

    def exp(self):
        return SV(ufun("exp", self.v))

    def log(self):
        return SV(ufun("log", self.v))

    def tanh(self):
        return SV(ufun("tanh", self.v))

    def cos(self):
        return SV(ufun("cos", self.v))

    def sin(self):
        return SV(ufun("sin", self.v))

    def arccos(self):
        return SV(ufun("arccos", self.v))

    def conjugate(self):
        return self

    @property
    def real(self):
        return self

    # ---- comparisons
    def _cmp(self, o, f):
        if isinstance(o, np.ndarray):
            g = np.frompyfunc(lambda x: self._cmp(x, f), 1, 1)
            return SymNd(np.asarray(g(o), dtype=object))
        b = _num(o)
        a = self.v
        if isinstance(b, _Inf) or isinstance(a, _Inf):
            return _cmp_inf(a, b, f)
        r = f(a, b)
        return SB(r) if isinstance(r, z3.BoolRef) else r

    def __lt__(self, o):
        return self._cmp(o, sx.lt)

    def __le__(self, o):
        return self._cmp(o, sx.le)

    def __gt__(self, o):
        return self._cmp(o, sx.gt)

    def __ge__(self, o):
        return self._cmp(o, sx.ge)

    def __eq__(self, o):
        if o is None or isinstance(o, (str, bytes)):
            return False
        return self._cmp(o, sx.eq)

    def __ne__(self, o):
        if o is None or isinstance(o, (str, bytes)):
            return True
        return self._cmp(o, sx.ne)

    def __hash__(self):
        return id(self)

    def __bool__(self):
        return bool(SB(sx.truth(self.v))) if sx.is_sym(self.v) else bool(self.v)

    def __float__(self):
        if not sx.is_sym(self.v):
            return float(self.v)
        raise Unsupported("float() of a symbolic value")

    def __int__(self):
        if not sx.is_sym(self.v):
            return int(self.v)
        return concretize_int(self)

    __index__ = __int__

    def __repr__(self):
        return f"SV({self.v})"

    def isnan(self):
        v = self.v
        if isinstance(v, NF):
            return wrap(v.nan) if sx.is_sym(v.nan) else bool(v.nan)
        return False


class SC:
    """complex scalar with SV-compatible parts (re, im are sx values)"""
    __slots__ = ("re", "im")
    __array_priority__ = 100.0

    def __init__(self, re, im=0):
        self.re, self.im = unwrap(re), unwrap(im)

    @staticmethod
    def of(x):
        if isinstance(x, SC):
            return x
        if isinstance(x, complex):
            return SC(_num(x.real), _num(x.imag))
        return SC(_num(x), 0)

    def __add__(self, o):
        o = SC.of(o)
        return SC(sx.add(self.re, o.re), sx.add(self.im, o.im))

    __radd__ = __add__

    def __sub__(self, o):
        o = SC.of(o)
        return SC(sx.sub(self.re, o.re), sx.sub(self.im, o.im))

    def __rsub__(self, o):
        return SC.of(o) - self

    def __mul__(self, o):
        if isinstance(o, np.ndarray):
            return NotImplemented
        o = SC.of(o)
        return SC(sx.sub(sx.mul(self.re, o.re), sx.mul(self.im, o.im)), sx.add(sx.mul(self.re, o.im), sx.mul(self.im, o.re)))

    __rmul__ = __mul__

    def __truediv__(self, o):
        if isinstance(o, SC):
            d = sx.add(sx.mul(o.re, o.re), sx.mul(o.im, o.im))
            n = self * SC(o.re, sx.neg(o.im))
            return SC(_div(n.re, d), _div(n.im, d))
        o = _num(o)
        return SC(_div(self.re, o), _div(self.im, o))

    def __neg__(self):
        return SC(sx.neg(self.re), sx.neg(self.im))

    def __abs__(self):
        return SV(root(sx.add(sx.mul(self.re, self.re), sx.mul(self.im, self.im)), 2))

    def abs2(self):
        return sx.add(sx.mul(self.re, self.re), sx.mul(self.im, self.im))

    def conjugate(self):
        return SC(self.re, sx.neg(self.im))

    @property
    def real(self):
        return wrap(self.re) if sx.is_sym(self.re) or isinstance(self.re, Fraction) else self.re

    @property
    def imag(self):
        return wrap(self.im) if sx.is_sym(self.im) or isinstance(self.im, Fraction) else self.im

    def exp(self):
        """exp(i*phi) for a purely imaginary argument: unit complex number (c, s) with c^2 + s^2 = 1"""
        if not (not sx.is_sym(self.re) and self.re == 0):
            raise Unsupported("exp of a complex number with non-zero real part")
        ex = current()
        c, s_ = ex.fresh("real", "cos"), ex.fresh("real", "sin")
        con = c * c + s_ * s_ == 1
        ex.extra.append(con)
        ex.solver.add(con)
        return SC(c, s_)

    def __hash__(self):
        return id(self)

    def __repr__(self):
        return f"SC({self.re},{self.im})"


def _div(a, b):
    """float division: a symbolic divisor that may be zero yields a NaN-flagged value (0/0 = nan, x/0 = +-inf are
    both represented by the flag; merged, no fork)"""
    bz = sx.eq(b.val if isinstance(b, NF) else b, 0)
    if isinstance(b, NF):
        bz = and_(not_(b.nan), bz)
    if bz is True:
        return NF(True, 0)
    if bz is False:
        return sx.div(a, b)
    ex = current()
    if ex is not None:
        # one feasibility query per divisor term and path (a row divided by its standard deviation asks once, not once per cell);
        # the path condition only grows, so "infeasible" stays valid and a stale "feasible" merely keeps the NaN flag (sound)
        cache = ex.__dict__.setdefault("_divz", {})
        key = (len(ex.decisions), bz.get_id()) if isinstance(bz, z3.ExprRef) else None
        hit = None
        if key is not None:
            for (nd, tid), (term, ans) in list(cache.items()):
                if tid == key[1] and nd <= key[0] and term.eq(bz) and ans is False:
                    hit = False
                    break
                if tid == key[1] and nd == key[0] and term.eq(bz):
                    hit = ans
                    break
        feas = ex._feasible(bz) if hit is None else hit
        if key is not None and hit is None:
            cache[key] = (bz, feas)
        if not feas:
            return sx.div(a, b)
        ex.note_divisor(b)
    a2, b2 = sx.to_nf(a), sx.to_nf(b)
    safe = ite(bz, 1, b2.val)
    return NF(or_(a2.nan, b2.nan, bz), sx.div(a2.val, safe))


def _cmp_inf(a, b, f):
    """comparisons where one side is +-inf"""
    name = f.__name__
    fin = not isinstance(a, _Inf)
    if isinstance(a, _Inf) and isinstance(b, _Inf):
        x, y = a.sign, b.sign
    elif isinstance(a, _Inf):
        x, y = a.sign, 0
    else:
        x, y = 0, b.sign
    return {"lt": x < y, "le": x <= y, "gt": x > y, "ge": x >= y, "eq": x == y, "ne": x != y}[name]


class SB:
    """symbolic boolean"""
    __slots__ = ("v",)

    def __init__(self, v):
        self.v = v.v if isinstance(v, SB) else v

    def __bool__(self):
        if isinstance(self.v, bool):
            return self.v
        ex = current()
        if ex is None:
            raise Unsupported("bool() of a symbolic condition outside an Explorer")
        return ex.branch(self.v)

    def __and__(self, o):
        return wrap_b(and_(self.v, unwrap_b(o)))

    __rand__ = __and__

    def __or__(self, o):
        return wrap_b(or_(self.v, unwrap_b(o)))

    __ror__ = __or__

    def __invert__(self):
        return wrap_b(not_(self.v))

    def __xor__(self, o):
        return wrap_b(sx.ne(self.v, unwrap_b(o)))

    __rxor__ = __xor__

    def __eq__(self, o):
        return wrap_b(sx.eq(self.v, unwrap_b(o)))

    def __ne__(self, o):
        return wrap_b(sx.ne(self.v, unwrap_b(o)))

    def __hash__(self):
        return id(self)

    # numeric use of booleans (mask.sum(), mask * x)
    def _i(self):
        return SV(sx.b2i(self.v))

    def __add__(self, o):
        return self._i() + (o._i() if isinstance(o, SB) else o)

    __radd__ = __add__

    def __mul__(self, o):
        return self._i() * (o._i() if isinstance(o, SB) else o)

    __rmul__ = __mul__

    def __sub__(self, o):
        return self._i() - (o._i() if isinstance(o, SB) else o)

    def __rsub__(self, o):
        return (o._i() if isinstance(o, SB) else o) - self._i()

    def __int__(self):
        return int(bool(self))

    def __repr__(self):
        return f"SB({self.v})"


def unwrap_b(x):
    if isinstance(x, SB):
        return x.v
    if isinstance(x, SV):
        return sx.truth(x.v)
    if isinstance(x, (np.bool_,)):
        return bool(x)
    return sx.truth(x) if not isinstance(x, bool) else x


def wrap_b(v):
    return SB(v) if isinstance(v, z3.BoolRef) else bool(v)


# uninterpreted / algebraic functions ------------------------------------------------------------
_UF = {}


def ufun(name, x):
    ex = current()
    if not sx.is_sym(x):
        x = sx.lift(x)
    if isinstance(x, z3.ArithRef) and x.is_int():
        x = z3.ToReal(x)
    if name not in _UF:
        _UF[name] = z3.Function(name, z3.RealSort(), z3.RealSort())
    t = _UF[name](x)
    if ex is not None:
        ex.used_ufuns.add(name)
    return t


def root(x, k):
    """k-th root of a non-negative value as a fresh algebraic variable"""
    if isinstance(x, NF):
        return NF(x.nan, root(x.val, k))
    if not sx.is_sym(x):
        fr = Fraction(x)
        if fr >= 0:
            for cand in (round(float(fr) ** (1.0 / k)),):
                if Fraction(cand) ** k == fr:
                    return cand
            n, d = fr.numerator, fr.denominator
            rn, rd = round(n ** (1.0 / k)), round(d ** (1.0 / k))
            if rn ** k == n and rd ** k == d:
                return Fraction(rn, rd)
    ex = current()
    if ex is None:
        raise Unsupported("root outside Explorer")
    return ex.fresh_root(x, k)


# ============================================================================================ explorer
_CUR = [None]


def current():
    return _CUR[0]


class Explorer:
    """exhaustive DFS over branch decisions with solver feasibility checks"""

    def __init__(self, hyps=(), max_paths=512, feas_timeout_ms=3000, name=""):
        self.hyps = [h for h in hyps if h is not True]
        self.max_paths = max_paths
        self.feas_timeout_ms = feas_timeout_ms
        self.paths = 0
        self.infeasible = 0
        self.truncated = False
        self.used_ufuns = set()
        self.name = name
        self.results = []
        self.extra = []          # per-path extra assumptions (roots, ...)
        self.notes = []

    # ---- per-path state
    def _reset(self, prefix):
        self.prefix = prefix
        self.pos = 0
        self.decisions = []
        self.pc = []
        self.extra = []
        self.nfresh = 0
        self.zero_divisors = []
        self._divz = {}
        self.solver = z3.Solver()
        self.solver.set("timeout", self.feas_timeout_ms)
        for h in self.hyps:
            self.solver.add(h)

    def fresh(self, kind, tag):
        self.nfresh += 1
        nm = f"p_{tag}{self.nfresh}"
        return z3.Real(nm) if kind == "real" else (z3.Int(nm) if kind == "int" else z3.Bool(nm))

    def fresh_root(self, x, k):
        s = self.fresh("real", f"root{k}_")
        x = sx.lift(x) if not sx.is_sym(x) else x
        p = s
        for _ in range(k - 1):
            p = p * s
        c = z3.And(s >= 0, p == x)
        self.extra.append(c)
        self.solver.add(c)
        return s

    def assume(self, c):
        c = unwrap_b(c)
        if c is True:
            return
        if c is False:
            raise PathAbort()
        self.extra.append(c)
        self.solver.add(c)
        if str(self.solver.check()) == "unsat":
            raise PathAbort()

    def note_divisor(self, b):
        self.zero_divisors.append(b)

    def _feasible(self, c):
        self.solver.push()
        self.solver.add(c)
        r = str(self.solver.check())
        self.solver.pop()
        return r != "unsat"

    def branch(self, cond):
        t_ok = self._feasible(cond)
        f_ok = self._feasible(not_(cond))
        if t_ok and not f_ok:
            self.solver.add(cond)
            self.pc.append(cond)
            return True
        if f_ok and not t_ok:
            self.solver.add(not_(cond))
            self.pc.append(not_(cond))
            return False
        if not t_ok and not f_ok:
            self.infeasible += 1
            raise PathAbort()
        # genuine fork: only these are recorded as decisions / consume the replayed prefix
        if self.pos < len(self.prefix):
            choice = self.prefix[self.pos]
        else:
            choice = True
            self.pending.append(self.decisions + [False])
        self.pos += 1
        self.decisions.append(choice)
        c = cond if choice else not_(cond)
        self.solver.add(c)
        self.pc.append(c)
        return choice

    def path_condition(self):
        return list(self.hyps) + list(self.pc) + list(self.extra)

    def run(self, fn):
        """fn(explorer) is executed once per feasible path; its return values are collected"""
        self.pending = [[]]
        out = []
        while self.pending:
            if self.paths >= self.max_paths:
                self.truncated = True
                break
            prefix = self.pending.pop()
            self._reset(prefix)
            _CUR[0] = self
            try:
                r = fn(self)
                self.paths += 1
                out.append(Path(list(self.decisions), list(self.pc), list(self.extra), r, list(self.zero_divisors)))
            except PathAbort:
                pass
            finally:
                _CUR[0] = None
        return out


class Path:
    def __init__(self, decisions, pc, extra, result, zero_divisors):
        self.decisions, self.pc, self.extra, self.result, self.zero_divisors = decisions, pc, extra, result, zero_divisors

    def cond(self):
        return list(self.pc) + list(self.extra)


def concretize_int(x, lo=None, hi=None, limit=64):
    """fork over the possible integer values of a symbolic int (used for int(rate*(N-1)), range(SV), indices)"""
    ex = current()
    v = unwrap(x)
    if not sx.is_sym(v):
        return int(v)
    if ex is None:
        raise Unsupported("int() of symbolic value outside an Explorer")
    t = sx.trunc(v)
    # enumerate candidate values by asking the solver
    k = 0
    while True:
        ex.solver.push()
        r = str(ex.solver.check())
        if r != "sat":
            ex.solver.pop()
            raise PathAbort()
        m = ex.solver.model()
        val = m.eval(t, model_completion=True)
        ex.solver.pop()
        val = val.as_long()
        if ex.branch(t == val):
            return val
        k += 1
        if k > limit:
            raise PathAbort()


# ============================================================================================ arrays
def _elementwise(f, nout=1):
    return np.frompyfunc(f, 2, nout)


_lt = np.frompyfunc(lambda a, b: _cmp_any(a, b, "lt"), 2, 1)
_le = np.frompyfunc(lambda a, b: _cmp_any(a, b, "le"), 2, 1)
_gt = np.frompyfunc(lambda a, b: _cmp_any(a, b, "gt"), 2, 1)
_ge = np.frompyfunc(lambda a, b: _cmp_any(a, b, "ge"), 2, 1)
_eq = np.frompyfunc(lambda a, b: _cmp_any(a, b, "eq"), 2, 1)
_ne = np.frompyfunc(lambda a, b: _cmp_any(a, b, "ne"), 2, 1)


def _cmp_any(a, b, op):
    if isinstance(a, SB) or isinstance(b, SB):
        x, y = unwrap_b(a), unwrap_b(b)
        r = {"eq": sx.eq, "ne": sx.ne}[op](x, y)
        return wrap_b(r)
    x, y = _num(a), _num(b)
    if isinstance(x, _Inf) or isinstance(y, _Inf):
        return _cmp_inf(x, y, getattr(sx, op))
    r = getattr(sx, op)(x, y)
    return SB(r) if isinstance(r, z3.BoolRef) else bool(r)


def is_symmask(k):
    return isinstance(k, np.ndarray) and k.dtype == object and k.size > 0 and \
        all(isinstance(x, (SB, bool, np.bool_)) for x in k.ravel()) and any(isinstance(x, SB) for x in k.ravel())


def concretize_mask(k):
    out = np.zeros(k.shape, dtype=bool)
    flat = out.ravel()
    for i, x in enumerate(k.ravel()):
        flat[i] = bool(x)
    return out


class SymNd(np.ndarray):
    """object-dtype ndarray holding SV / SB / python numbers"""
    __array_priority__ = 50.0

    def __new__(cls, data):
        a = np.asarray(data, dtype=object) if not (isinstance(data, np.ndarray) and data.dtype == object) else data
        return a.view(cls)

    # comparisons produce arrays of SB (no forking)
    def __lt__(self, o):
        return _lt(self, o).view(SymNd)

    def __le__(self, o):
        return _le(self, o).view(SymNd)

    def __gt__(self, o):
        return _gt(self, o).view(SymNd)

    def __ge__(self, o):
        return _ge(self, o).view(SymNd)

    def __eq__(self, o):
        return _eq(self, o).view(SymNd)

    def __ne__(self, o):
        return _ne(self, o).view(SymNd)

    __hash__ = None

    def _fixkey(self, key):
        if isinstance(key, tuple):
            return tuple(self._fixkey1(k) for k in key)
        return self._fixkey1(key)

    def _fixkey1(self, k):
        if isinstance(k, np.ndarray) and k.dtype == object:
            if k.size and all(isinstance(x, (SB, bool, np.bool_)) for x in k.ravel()):
                return concretize_mask(k)
            return np.array([int(x) for x in k.ravel()], dtype=int).reshape(k.shape)
        if isinstance(k, (SV,)):
            return int(k)
        if isinstance(k, SB):
            return bool(k)
        if isinstance(k, list) and any(isinstance(x, (SV, SB)) for x in k):
            return [int(x) if isinstance(x, SV) else bool(x) for x in k]
        return k

    def __getitem__(self, key):
        r = super().__getitem__(self._fixkey(key))
        return r

    def __setitem__(self, key, value):
        if is_symmask(key) and key.shape == self.shape and not isinstance(value, np.ndarray):
            # merge instead of forking:  a[mask] = v
            flat = self.reshape(-1) if self.flags["C_CONTIGUOUS"] else None
            v = _num(value)
            if isinstance(v, _Inf):
                # a cell cannot be "maybe infinite": fork on the mask instead of merging
                super().__setitem__(concretize_mask(key), value)
                return
            it = np.nditer(self, flags=["multi_index", "refs_ok"])
            for _ in it:
                idx = it.multi_index
                m = key[idx]
                old = super().__getitem__(idx)
                if isinstance(m, SB):
                    new = wrap(ite(m.v, v, _num(old)))
                    super().__setitem__(idx, new)
                elif m:
                    super().__setitem__(idx, value)
            return
        if isinstance(value, (SV, SB)) or (isinstance(value, np.ndarray) and value.dtype == object):
            pass
        super().__setitem__(self._fixkey(key), value)

    def astype(self, dtype, *a, **kw):
        if dtype is float_shim:
            dtype = float
        dt = np.dtype(dtype) if dtype is not object else np.dtype(object)
        if dt == object:
            return self.copy()
        if not any(isinstance(x, (SV, SB)) for x in self.ravel()):
            return np.asarray(super().astype(dtype)).view(np.ndarray)
        if dt.kind in "iu":
            out = SymNd(np.empty(self.shape, dtype=object))
            of, sf = out.ravel(), self.ravel()
            for i in range(sf.size):
                x = sf[i]
                of[i] = wrap(sx.trunc(_num(x))) if isinstance(x, (SV, SB)) else int(x)
            return out.reshape(self.shape)
        if dt.kind == "b":
            out = SymNd(np.empty(self.shape, dtype=object))
            of, sf = out.ravel(), self.ravel()
            for i in range(sf.size):
                of[i] = wrap_b(unwrap_b(sf[i]))
            return out.reshape(self.shape)
        return self.copy()      # float targets: dtype erasure (exact reals)

    def _bool_reduce(self, axis, op):
        a = np.moveaxis(np.asarray(self), axis, -1)
        out = np.empty(a.shape[:-1], dtype=object)
        for idx in np.ndindex(*a.shape[:-1]):
            out[idx] = wrap_b(op(*[unwrap_b(x) for x in a[idx]]))
        return SymNd(out)

    def any(self, axis=None, **kw):
        if axis is None:
            return wrap_b(or_(*[unwrap_b(x) for x in self.ravel()]))
        return self._bool_reduce(axis, or_)

    def all(self, axis=None, **kw):
        if axis is None:
            return wrap_b(and_(*[unwrap_b(x) for x in self.ravel()]))
        return self._bool_reduce(axis, and_)

    def max(self, axis=None, **kw):
        return _reduce_minmax(self, axis, True)

    def min(self, axis=None, **kw):
        return _reduce_minmax(self, axis, False)

    def sum(self, axis=None, **kw):
        kw.pop("dtype", None)
        if self.size == 0:
            return 0 if axis is None else np.zeros([s for i, s in enumerate(self.shape) if i != axis])
        r = np.add.reduce(np.asarray(_b2i_arr(self)), axis=axis)
        return r.view(SymNd) if isinstance(r, np.ndarray) else r

    def mean(self, axis=None, **kw):
        n = self.size if axis is None else self.shape[axis]
        return self.sum(axis=axis) / n

    def std(self, axis=None, **kw):
        m = self.mean(axis=axis)
        if axis is not None:
            m = np.expand_dims(m, axis)
        d = self - m
        return np.sqrt((d * d).mean(axis=axis))

    def var(self, axis=None, **kw):
        m = self.mean(axis=axis)
        if axis is not None:
            m = np.expand_dims(m, axis)
        d = self - m
        return (d * d).mean(axis=axis)

    def dot(self, o):
        return np.dot(self, o)

    def argsort(self, axis=-1, **kw):
        return sym_argsort(self, axis)

    def sort(self, axis=-1, **kw):
        idx = sym_argsort(self, axis)
        self[...] = np.take_along_axis(np.asarray(self), idx, axis=axis)

    def nonzero(self):
        return np.nonzero(concretize_mask(self != 0) if any(isinstance(x, (SV, SB)) for x in self.ravel())
                          else np.asarray(self).astype(bool))

    def tolist(self):
        return np.asarray(self).tolist()

    def squeeze(self, *a, **kw):
        return np.asarray(self).squeeze(*a, **kw).view(SymNd)

    def fill(self, v):
        np.asarray(self).fill(v)


def _b2i_arr(a):
    if any(isinstance(x, SB) for x in a.ravel()):
        out = np.empty(a.shape, dtype=object)
        of, af = out.ravel(), np.asarray(a).ravel()
        for i in range(af.size):
            of[i] = af[i]._i() if isinstance(af[i], SB) else (int(af[i]) if isinstance(af[i], (bool, np.bool_)) else af[i])
        return out
    return a


def _reduce_minmax(a, axis, is_max):
    def red(vals):
        if len(vals) == 0:
            raise ValueError("zero-size array to reduction operation which has no identity")
        out = _num(vals[0])
        for v in vals[1:]:
            v = _num(v)
            if is_max:
                out = ite(sx.gt(v, out), v, out)
            else:
                out = ite(sx.lt(v, out), v, out)
        return wrap(out) if sx.is_sym(out) or isinstance(out, Fraction) else out
    arr = np.asarray(a)
    if axis is None:
        return red(list(arr.ravel()))
    res = np.apply_along_axis(lambda r: np.array([red(list(r))], dtype=object)[0], axis, arr)
    return SymNd(res)


def sym_argsort(a, axis=-1):
    """stable argsort by forking on comparisons (insertion sort -> deterministic branch sequence)"""
    arr = np.asarray(a)
    if arr.ndim == 1:
        idx = list(range(arr.shape[0]))
        out = []
        for i in idx:
            pos = len(out)
            # stable: insert after all elements <= arr[i]
            while pos > 0:
                c = _cmp_any(arr[out[pos - 1]], arr[i], "gt")
                if bool(c):
                    pos -= 1
                else:
                    break
            out.insert(pos, i)
        return np.array(out, dtype=int)
    if axis < 0:
        axis += arr.ndim
    res = np.empty(arr.shape, dtype=int)
    for ix in itertools.product(*[range(s) for k, s in enumerate(arr.shape) if k != axis]):
        sl = list(ix)
        sl.insert(axis, slice(None))
        res[tuple(sl)] = sym_argsort(arr[tuple(sl)])
    return res


def sym(shape, prefix, kind="real"):
    """fresh SymNd of solver variables"""
    if isinstance(shape, int):
        shape = (shape,)
    n = 1
    for s in shape:
        n *= s
    mk = z3.Real if kind == "real" else z3.Int
    a = np.empty(n, dtype=object)
    for k in range(n):
        a[k] = SV(mk(f"{prefix}{k}"))
    return SymNd(a.reshape(shape))


def to_symnd(x):
    """wrap exact values of an array-like as SymNd (floats -> Fractions)"""
    return exactify(np.asarray(x, dtype=object) if not isinstance(x, np.ndarray) else x.astype(object))
    a = np.asarray(x)
    out = np.empty(a.shape, dtype=object)
    of, af = out.ravel(), a.ravel()
    for i in range(af.size):
        v = af[i]
        if isinstance(v, (SV, SB)):
            of[i] = v
        elif isinstance(v, (float, np.floating)):
            of[i] = SV(Fraction(float(v))) if float(v) == float(v) and abs(float(v)) != math.inf else float(v)
        elif isinstance(v, (np.integer,)):
            of[i] = int(v)
        else:
            of[i] = v
    return SymNd(out)


def values(a):
    """SymNd / nested -> nested list of sx values"""
    if isinstance(a, np.ndarray):
        return [values(x) for x in a] if a.ndim > 0 else unwrap(a.item())
    if isinstance(a, (list, tuple)):
        return [values(x) for x in a]
    return unwrap(a)


def flat_values(a):
    if isinstance(a, SSparse):
        a = a.d
    if isinstance(a, np.ndarray):
        return [_num(x) for x in np.asarray(a).ravel()]
    if isinstance(a, (list, tuple)):
        out = []
        for x in a:
            out.extend(flat_values(x))
        return out
    return [_num(a)]


# ============================================================================================ numpy proxy
class LinalgProxy:
    """numpy.linalg stand-in: symbolic matrices are handed to the model installed in `hooks` (a harness states the defining
    equations of the result as assumptions); concrete matrices go to numpy"""

    def __init__(self):
        self.hooks = {}

    def __getattr__(self, name):
        real = getattr(_real_np.linalg, name)

        def call(M, *a, **k):
            arr = np.asarray(M.d if isinstance(M, SSparse) else M, dtype=object)
            symbolic = any(isinstance(x, (SV, SB, SC)) and sx.is_sym(getattr(x, "v", None)) for x in arr.ravel()) or name in self.hooks
            if name in self.hooks:
                return self.hooks[name](M, *a, **k)
            if symbolic:
                raise Unsupported(f"numpy.linalg.{name} of a symbolic matrix without a model")
            return _rewrap(real(np.array([float(unwrap(x)) for x in arr.ravel()], dtype=float).reshape(arr.shape), *a, **k))
        return call


LINALG = LinalgProxy()


class NpProxy(types.ModuleType):
    """module-like object: forwards to numpy, intercepting what object arrays cannot do"""

    def __init__(self):
        super().__init__("numpy_proxy")
        self.__dict__["_np"] = _real_np

    def __getattr__(self, name):
        obj = getattr(_real_np, name)
        if isinstance(obj, (types.FunctionType, types.BuiltinFunctionType)) or type(obj).__name__ in ("_ArrayFunctionDispatcher", "ufunc"):
            def wrapped(*a, **k):
                if "dtype" in k and k["dtype"] is float_shim:
                    k["dtype"] = float
                return _rewrap(obj(*a, **k))
            return wrapped
        return obj

    @property
    def linalg(self):
        return LINALG

    # creation: object arrays so that symbolic values can be stored later
    def zeros(self, shape, dtype=float, **kw):
        return exactify(_real_np.zeros(shape, dtype=object) + 0)

    def ones(self, shape, dtype=float, **kw):
        return exactify(_real_np.zeros(shape, dtype=object) + 1)

    def empty(self, shape, dtype=float, **kw):
        return exactify(_real_np.zeros(shape, dtype=object) + 0)

    def zeros_like(self, a, dtype=None, **kw):
        return exactify(_real_np.zeros(_real_np.shape(a), dtype=object) + 0)

    def ones_like(self, a, dtype=None, **kw):
        return exactify(_real_np.zeros(_real_np.shape(a), dtype=object) + 1)

    def identity(self, n, dtype=None):
        if dtype is bool:
            return _real_np.identity(n, dtype=bool)
        return exactify(_real_np.identity(n, dtype=int).astype(object))

    def eye(self, n, m=None, k=0, dtype=None):
        if dtype is bool:
            return _real_np.eye(n, m, k, dtype=bool)
        return exactify(_real_np.eye(n, m, k, dtype=int).astype(object))

    def arange(self, *a, **kw):
        kw.pop("dtype", None)
        a = [int(x) if isinstance(x, SV) else x for x in a]
        return _real_np.arange(*a, **kw)

    def array(self, obj, dtype=None, **kw):
        if dtype is float_shim:
            dtype = float
        if isinstance(obj, SSparse):
            return obj.toarray()
        a = _real_np.array(obj, dtype=object) if _has_sym(obj) else _real_np.array(obj, **kw)
        if a.dtype == object:
            return exactify(a)
        if dtype is not None and a.dtype != object:
            a = a.astype(dtype)
        return exactify(a.astype(object)) if a.dtype.kind in "fiu" else (SymNd(a.astype(object)) if a.dtype.kind == "b" else a)

    def asarray(self, obj, dtype=None, **kw):
        if isinstance(obj, SymNd):
            return obj
        return self.array(obj, dtype=dtype)

    def unique(self, a, axis=None, **kw):
        arr = _real_np.asarray(a)
        if arr.dtype == object:
            # sorting needs concrete keys: integer-valued symbolic entries are decided (forking), as an index use would do
            flat = [int(x) if isinstance(x, SV) else (bool(x) if isinstance(x, SB) else x) for x in arr.ravel()]
            arr = _real_np.array(flat).reshape(arr.shape)
        return _rewrap(_real_np.unique(arr, axis=axis, **kw))

    def isnan(self, a):
        if isinstance(a, np.ndarray) and a.dtype == object:
            f = np.frompyfunc(lambda x: x.isnan() if isinstance(x, SV) else (x != x if isinstance(x, float) else False), 1, 1)
            return f(a).view(SymNd)
        if isinstance(a, SV):
            return a.isnan()
        return _real_np.isnan(a)

    def isinf(self, a):
        if isinstance(a, np.ndarray) and a.dtype == object:
            f = np.frompyfunc(lambda x: isinstance(x, float) and x in (math.inf, -math.inf), 1, 1)
            return f(a).astype(bool)
        return _real_np.isinf(a)

    def sqrt(self, a):
        if isinstance(a, SV):
            return a.sqrt()
        if isinstance(a, np.ndarray) and a.dtype == object:
            return np.frompyfunc(lambda x: x.sqrt() if isinstance(x, SV) else SV(root(_num(x), 2)), 1, 1)(a).view(SymNd)
        return _real_np.sqrt(a)

    def _uf(self, name, a):
        f = lambda x: getattr(x, name)() if isinstance(x, SV) else SV(ufun(name, _num(x)))
        if isinstance(a, np.ndarray) and a.dtype == object:
            return np.frompyfunc(f, 1, 1)(a).view(SymNd)
        if isinstance(a, SV):
            return f(a)
        return getattr(_real_np, name)(a)

    def exp(self, a):
        if isinstance(a, SC):
            return a.exp()
        if isinstance(a, np.ndarray) and a.dtype == object and a.size and any(isinstance(x, SC) for x in a.ravel()):
            return np.frompyfunc(lambda x: SC.of(x).exp(), 1, 1)(a).view(SymNd)
        return self._uf("exp", a)

    def real(self, a):
        if isinstance(a, np.ndarray) and a.dtype == object:
            return np.frompyfunc(lambda x: x.real if isinstance(x, (SC, SV)) else x, 1, 1)(a).view(SymNd)
        return _real_np.real(a)

    def ascontiguousarray(self, a, **kw):
        return a if isinstance(a, SymNd) else _real_np.ascontiguousarray(a, **kw)

    @property
    def fft(self):
        return FFT

    def log(self, a):
        return self._uf("log", a)

    def tanh(self, a):
        return self._uf("tanh", a)

    def cos(self, a):
        return self._uf("cos", a)

    def sin(self, a):
        return self._uf("sin", a)

    def arccos(self, a):
        return self._uf("arccos", a)

    def abs(self, a):
        return abs(a)

    absolute = abs

    def power(self, a, b):
        return a ** b

    def square(self, a):
        return a * a

    def sign(self, a):
        def sg(x):
            v = _num(x)
            return wrap(ite(sx.gt(v, 0), 1, ite(sx.lt(v, 0), -1, 0)))
        if isinstance(a, np.ndarray) and a.dtype == object:
            return np.frompyfunc(sg, 1, 1)(a).view(SymNd)
        if isinstance(a, SV):
            return sg(a)
        return _real_np.sign(a)

    def maximum(self, a, b):
        return self._mm(a, b, True)

    def minimum(self, a, b):
        return self._mm(a, b, False)

    def _mm(self, a, b, is_max):
        def f(x, y):
            x0, y0 = x, y
            x, y = _num(x), _num(y)
            if isinstance(x, _Inf) or isinstance(y, _Inf):
                if isinstance(x, _Inf) and isinstance(y, _Inf):
                    return max(x.sign, y.sign) * math.inf if is_max else min(x.sign, y.sign) * math.inf
                inf_, other, o0 = (x, y, y0) if isinstance(x, _Inf) else (y, x, x0)
                pick_inf = (inf_.sign > 0) == is_max
                return inf_.sign * math.inf if pick_inf else o0
            r = ite(sx.gt(x, y), x, y) if is_max else ite(sx.lt(x, y), x, y)
            return wrap(r) if sx.is_sym(r) or isinstance(r, Fraction) else r
        if _has_sym(a) or _has_sym(b):
            r = np.frompyfunc(f, 2, 1)(a, b)
            return r.view(SymNd) if isinstance(r, np.ndarray) else r
        return (_real_np.maximum if is_max else _real_np.minimum)(a, b)

    def max(self, a, axis=None, **kw):
        return SymNd(a).max(axis=axis) if _has_sym(a) else _real_np.max(a, axis=axis, **kw)

    amax = max

    def min(self, a, axis=None, **kw):
        return SymNd(a).min(axis=axis) if _has_sym(a) else _real_np.min(a, axis=axis, **kw)

    amin = min

    def sum(self, a, axis=None, **kw):
        if isinstance(a, np.ndarray) and a.dtype == object:
            return SymNd(a).sum(axis=axis)
        return _real_np.sum(a, axis=axis, **kw)

    def mean(self, a, axis=None, **kw):
        if isinstance(a, np.ndarray) and a.dtype == object:
            return SymNd(a).mean(axis=axis)
        return _real_np.mean(a, axis=axis, **kw)

    def any(self, a, axis=None, **kw):
        if isinstance(a, np.ndarray) and a.dtype == object:
            return SymNd(a).any(axis=axis)
        return _real_np.any(a, axis=axis, **kw)

    def all(self, a, axis=None, **kw):
        if isinstance(a, np.ndarray) and a.dtype == object:
            return SymNd(a).all(axis=axis)
        return _real_np.all(a, axis=axis, **kw)

    def count_nonzero(self, a, axis=None, **kw):
        if isinstance(a, np.ndarray) and a.dtype == object:
            nz = np.frompyfunc(lambda x: SB(sx.truth(_num(x)))._i() if isinstance(x, (SV, SB)) else int(bool(x)), 1, 1)(a)
            return SymNd(nz).sum(axis=axis)
        return _real_np.count_nonzero(a, axis=axis, **kw)

    def where(self, cond, *args):
        if not args:
            if isinstance(cond, np.ndarray) and cond.dtype == object:
                cond = concretize_mask(cond)
            return _real_np.where(cond)
        x, y = args
        if isinstance(cond, np.ndarray) and cond.dtype == object:
            f = np.frompyfunc(lambda c, a, b: wrap(ite(unwrap_b(c), _num(a), _num(b))), 3, 1)
            return f(cond, x, y).view(SymNd)
        return _real_np.where(cond, x, y)

    def fill_diagonal(self, a, v, **kw):
        for i in range(min(a.shape)):
            a[i, i] = v

    def divide(self, a, b, out=None, where=True, **kw):
        """numpy.divide with out= / where= on proxy arrays: cells outside `where` keep the value of `out`"""
        aa = _real_np.asarray(a.d if isinstance(a, SSparse) else a)
        bb = _real_np.asarray(b.d if isinstance(b, SSparse) else b)
        sym = any(isinstance(x, _real_np.ndarray) and x.dtype == object for x in (aa, bb)) or \
            (isinstance(where, _real_np.ndarray) and where.dtype == object)
        if not sym:
            return _rewrap(_real_np.divide(aa, bb, out=out, where=where, **kw))
        shape = _real_np.broadcast(aa, bb).shape
        A_ = _real_np.broadcast_to(aa, shape)
        B_ = _real_np.broadcast_to(bb, shape)
        W_ = _real_np.broadcast_to(_real_np.asarray(where), shape)
        O_ = _real_np.broadcast_to(_real_np.asarray(out), shape) if out is not None else None
        res = _real_np.empty(shape, dtype=object)
        for idx in _real_np.ndindex(*shape):
            w = W_[idx]
            wv = unwrap_b(w) if isinstance(w, SB) else bool(w)
            if wv is False:
                res[idx] = O_[idx] if O_ is not None else 0
                continue
            x, y = A_[idx], B_[idx]
            x = x if isinstance(x, (SV, SB)) else wrap(_num(x))
            val = (x if isinstance(x, SV) else SV(_num(x))) / y
            if wv is True:
                res[idx] = val
            else:
                res[idx] = wrap(ite(wv, _num(val), _num(O_[idx]) if O_ is not None else 0))
        return SymNd(res)

    def argsort(self, a, axis=-1, **kw):
        if _has_sym(a):
            return sym_argsort(a, axis)
        return _real_np.argsort(a, axis=axis, **kw)

    def sort(self, a, axis=-1, **kw):
        if _has_sym(a):
            idx = sym_argsort(a, axis)
            return np.take_along_axis(np.asarray(a), idx, axis=axis).view(SymNd)
        return _real_np.sort(a, axis=axis, **kw)

    def extract(self, cond, a):
        if isinstance(cond, np.ndarray) and cond.dtype == object:
            cond = concretize_mask(cond)
        return _real_np.extract(cond, a)

    def float32(self, x=0.0):
        return x if isinstance(x, (SV,)) else (x._i() if isinstance(x, SB) else _real_np.float32(x))

    def float64(self, x=0.0):
        return x if isinstance(x, (SV,)) else (x._i() if isinstance(x, SB) else _real_np.float64(x))

    def quantile(self, a, q, axis=None, **kw):
        if not _has_sym(a):
            return _real_np.quantile(a, q, axis=axis, **kw)
        v = np.asarray(a, dtype=object).ravel()
        order = sym_argsort(v)
        srt = [v[i] for i in order]
        n = len(srt)
        pos = _num(q) * (n - 1)
        if sx.is_sym(pos):
            raise Unsupported("symbolic quantile level")
        lo = int(math.floor(pos))
        hi = min(lo + 1, n - 1)
        frac = Fraction(pos) - lo
        return srt[lo] + (srt[hi] - srt[lo]) * frac if frac else srt[lo]

    def median(self, a, axis=None, **kw):
        if not _has_sym(a):
            return _real_np.median(a, axis=axis, **kw)
        return self.quantile(a, Fraction(1, 2))

    def ceil(self, a):
        if isinstance(a, SV):
            return -SV(sx.floor_(sx.neg(a.v)))
        return _real_np.ceil(a)

    def floor(self, a):
        if isinstance(a, SV):
            return SV(sx.floor_(a.v))
        return _real_np.floor(a)


def exactify(a):
    """object array whose finite concrete numbers are SV-wrapped exact rationals (so that int/int or
    float arithmetic inside stays exact); inf / nan remain python floats"""
    out = np.empty(a.shape, dtype=object)
    of, af = out.ravel(), a.ravel()
    for i in range(af.size):
        v = af[i]
        if isinstance(v, (SV, SB)):
            of[i] = v
        elif isinstance(v, (bool, np.bool_)):
            of[i] = bool(v)
        elif isinstance(v, (int, np.integer)):
            of[i] = SV(int(v))
        elif isinstance(v, (float, np.floating)):
            f = float(v)
            of[i] = SV(Fraction(f)) if (f == f and abs(f) != math.inf) else f
        elif isinstance(v, Fraction):
            of[i] = SV(v)
        else:
            of[i] = v
    return SymNd(out)


class _FFTStub:
    """environment stub for numpy.fft: rfft returns an arbitrary complex spectrum of the right shape (the same one for the
    same input array object), irfft an arbitrary real array; contract irfft(rfft(x)) = x is NOT assumed"""

    def __init__(self):
        self.count = 0

    def rfft(self, a, axis=-1, **kw):
        ex = current()
        a = np.asarray(a, dtype=object)
        n = a.shape[axis]
        shape = list(a.shape)
        shape[axis] = n // 2 + 1
        out = np.empty(shape, dtype=object)
        flat = out.reshape(-1)
        for i in range(flat.size):
            flat[i] = SC(ex.fresh("real", "fre"), ex.fresh("real", "fim"))
        return SymNd(out)

    def irfft(self, a, n=None, axis=-1, **kw):
        ex = current()
        a = np.asarray(a, dtype=object)
        shape = list(a.shape)
        shape[axis] = n if n is not None else 2 * (a.shape[axis] - 1)
        out = np.empty(shape, dtype=object)
        flat = out.reshape(-1)
        self.last_irfft_input = a
        for i in range(flat.size):
            flat[i] = SV(ex.fresh("real", "ifft"))
        return SymNd(out)


FFT = _FFTStub()


def _rewrap(r):
    """object-dtype results of plain NumPy functions become SymNd again"""
    if isinstance(r, np.ndarray) and r.dtype == object and not isinstance(r, SymNd):
        return r.view(SymNd)
    if isinstance(r, tuple):
        return tuple(_rewrap(x) for x in r)
    if isinstance(r, list):
        return [_rewrap(x) for x in r]
    return r


def _has_sym(obj):
    if isinstance(obj, (SV, SB)):
        return True
    if isinstance(obj, np.ndarray):
        return obj.dtype == object
    if isinstance(obj, (list, tuple)):
        return any(_has_sym(x) for x in obj)
    return False


# ============================================================================================ scipy.sparse stand-in
class SSparse:
    """dense-backed stand-in for scipy.sparse matrices (operator conventions of spmatrix)"""
    __array_priority__ = 200.0

    def __init__(self, dense):
        d = dense.d if isinstance(dense, SSparse) else dense
        d = SymNd(np.array(d, dtype=object)) if not isinstance(d, SymNd) else d
        if d.ndim == 1:
            d = d.reshape(1, -1)
        self.d = d

    @property
    def shape(self):
        return self.d.shape

    @property
    def T(self):
        return SSparse(self.d.T)

    def transpose(self):
        return self.T

    @property
    def A(self):
        return self.toarray()

    def toarray(self):
        return SymNd(np.array(self.d, dtype=object))

    todense = toarray

    def tocsc(self):
        if getattr(self, "_coo", None) is not None:
            return SSparse(self.d)            # conversion sums duplicate coordinates
        return self

    tocsr = tolil = todok = tocsc

    def tocoo(self):
        return self

    copy = tocoo

    def astype(self, dtype, **kw):
        return self

    def diagonal(self, k=0):
        return SymNd(np.array(np.diagonal(self.d, k), dtype=object))

    def sum(self, axis=None):
        if axis is None:
            return self.d.sum()
        r = self.d.sum(axis=axis)
        return r

    def mean(self, axis=None):
        return self.d.mean(axis=axis)

    def multiply(self, o):
        o = o.d if isinstance(o, SSparse) else o
        return SSparse(self.d * o)

    def maximum(self, o):
        o = o.d if isinstance(o, SSparse) else o
        return SSparse(NP.maximum(self.d, o))

    def dot(self, o):
        return self * o

    def __mul__(self, o):
        if isinstance(o, SSparse):
            return SSparse(np.dot(self.d, o.d))
        if isinstance(o, np.ndarray):
            return np.dot(self.d, SymNd(np.asarray(o, dtype=object))).view(SymNd)
        return SSparse(self.d * o)

    def __rmul__(self, o):
        if isinstance(o, np.ndarray):
            return np.dot(SymNd(np.asarray(o, dtype=object)), self.d).view(SymNd)
        return SSparse(o * self.d)

    __matmul__ = __mul__
    __rmatmul__ = __rmul__

    def __truediv__(self, o):
        return SSparse(self.d / o)

    def __add__(self, o):
        o = o.d if isinstance(o, SSparse) else o
        return SSparse(self.d + o)

    __radd__ = __add__

    def __sub__(self, o):
        o = o.d if isinstance(o, SSparse) else o
        return SSparse(self.d - o)

    def __rsub__(self, o):
        o = o.d if isinstance(o, SSparse) else o
        return SSparse(o - self.d)

    def __neg__(self):
        return SSparse(-self.d)

    def __pow__(self, k):
        return SSparse(self.d ** k)

    def power(self, k):
        return SSparse(self.d ** k)

    def __getitem__(self, key):
        r = self.d[key]
        if isinstance(r, np.ndarray):
            if r.ndim == 1:
                # scipy keeps 2-D: row or column vector
                if isinstance(key, tuple) and len(key) == 2 and not isinstance(key[0], (slice, list, np.ndarray)):
                    return SSparse(r.reshape(1, -1))
                if isinstance(key, tuple) and len(key) == 2 and not isinstance(key[1], (slice, list, np.ndarray)):
                    return SSparse(r.reshape(-1, 1))
                return SSparse(r.reshape(1, -1))
            return SSparse(r)
        return r

    def __setitem__(self, key, v):
        if isinstance(v, SSparse):
            v = v.d
            tgt = self.d[key]
            if isinstance(tgt, np.ndarray) and tgt.shape != v.shape:
                v = v.reshape(tgt.shape)
        self.d[key] = v

    def nonzero(self):
        coo = getattr(self, "_coo", None)
        if coo is not None:
            # scipy's COO format keeps duplicate coordinates until it is converted: nonzero() lists every stored entry with data != 0
            rows = [i for (i, j, v) in coo if bool(wrap(sx.ne(_num(v), 0)) if sx.is_sym(_num(v)) else _num(v) != 0)]
            cols = [j for (i, j, v) in coo if bool(wrap(sx.ne(_num(v), 0)) if sx.is_sym(_num(v)) else _num(v) != 0)]
            return (np.array(rows, dtype=int), np.array(cols, dtype=int))
        return self.d.nonzero()

    def __repr__(self):
        return f"SSparse{self.shape}"


class SpProxy(types.ModuleType):
    def __init__(self):
        super().__init__("sparse_proxy")

    def issparse(self, x):
        return isinstance(x, SSparse)

    def identity(self, n, dtype=None, format=None):
        return SSparse(NP.identity(n))

    eye = identity

    def diags(self, diagonals, offsets=0, shape=None, format=None, dtype=None):
        d = diagonals
        if isinstance(d, (list, tuple)) and len(d) == 1 and isinstance(d[0], np.ndarray):
            d = d[0]
        d = np.asarray(d, dtype=object)
        n = d.shape[0]
        out = NP.zeros((n, n))
        for i in range(n):
            out[i, i] = d[i]
        return SSparse(out)

    def csc_matrix(self, x, shape=None, dtype=None):
        if isinstance(x, tuple) and len(x) == 2 and isinstance(x[1], tuple):
            return self.coo_matrix(x, shape=shape)
        if isinstance(x, tuple) and len(x) == 2 and all(isinstance(k, int) for k in x):
            return SSparse(NP.zeros(x))
        return SSparse(x)

    csr_matrix = csc_matrix

    def lil_matrix(self, x, dtype=None):
        if isinstance(x, tuple):
            return SSparse(NP.zeros(x))
        return SSparse(x)

    dok_matrix = lil_matrix

    def coo_matrix(self, x, shape=None, dtype=None):
        if isinstance(x, tuple) and len(x) == 2 and isinstance(x[1], tuple):
            data, (r, c) = x
            out = NP.zeros(shape)
            entries = []
            for v, i, j in zip(data, r, c):
                out[int(i), int(j)] = out[int(i), int(j)] + v
                entries.append((int(i), int(j), v))
            res = SSparse(out)
            res._coo = entries
            return res
        return SSparse(x)


NP = NpProxy()
SP = SpProxy()


def to_cy_shim(arr, ty):
    if isinstance(arr, np.ndarray) and arr.dtype == object:
        return SymNd(arr).astype(ty)
    if isinstance(arr, SSparse):
        return arr
    return SymNd(np.asarray(arr).astype(dtype=ty, copy=True, order="c", casting="same_kind").astype(object))


# ============================================================================================ patching
class _FloatMeta(type):
    def __instancecheck__(cls, obj):
        return isinstance(obj, (float, SV))

    def __subclasscheck__(cls, sub):
        return issubclass(sub, float)


class float_shim(float, metaclass=_FloatMeta):
    """float(x) on a proxy value keeps the proxy (exact reals); otherwise the builtin.  isinstance(x, float) keeps working."""

    def __new__(cls, x=0.0):
        if isinstance(x, SV):
            return x
        if isinstance(x, SB):
            return x._i()
        return float(x)


_MISSING = object()


@contextlib.contextmanager
def patched(modules, extra=None):
    """install the shims into the globals of the given pyunicorn modules"""
    saved = []
    try:
        for m in modules:
            saved.append((m, "float", m.__dict__.get("float", _MISSING)))
            m.__dict__["float"] = float_shim
            repl = {"np": NP, "sp": SP, "to_cy": to_cy_shim}
            if extra:
                repl.update(extra.get(m.__name__, {}))
                repl.update(extra.get("*", {}))
            for k, v in repl.items():
                if k in m.__dict__:
                    saved.append((m, k, m.__dict__[k]))
                    m.__dict__[k] = v
        yield
    finally:
        for m, k, v in reversed(saved):
            if v is _MISSING:
                m.__dict__.pop(k, None)
            else:
                m.__dict__[k] = v


def rankdata_shim(a, method="average", axis=None, **kw):
    """model of scipy.stats.rankdata for symbolic data (merged, no forking): rank = 1 + #smaller + (#equal others)/2 for 'average',
    1 + #smaller for 'min', #smaller-or-equal for 'max'; along `axis` (None: flattened)"""
    arr = np.asarray(a.d if isinstance(a, SSparse) else a, dtype=object)
    if not any(isinstance(x, (SV, SB)) and sx.is_sym(x.v) for x in arr.ravel()):
        from scipy.stats import rankdata as _rd
        return _rewrap(_rd(np.array([float(unwrap(x)) for x in arr.ravel()]).reshape(arr.shape), method=method, axis=axis, **kw))
    if method not in ("average", "min", "max"):
        raise Unsupported(f"rankdata method {method}")

    def rank1d(vals):
        out = []
        for t, x in enumerate(vals):
            less = sx.total(sx.ite(sx.lt(_num(y), _num(x)), 1, 0) for u, y in enumerate(vals) if u != t)
            same = sx.total(sx.ite(sx.eq(_num(y), _num(x)), 1, 0) for u, y in enumerate(vals) if u != t)
            if method == "average":
                out.append(wrap(sx.add(sx.add(1, less), sx.div(same, 2))))
            elif method == "min":
                out.append(wrap(sx.add(1, less)))
            else:
                out.append(wrap(sx.add(sx.add(1, less), same)))
        return out
    if axis is None:
        return SymNd(np.array(rank1d(list(arr.ravel())), dtype=object))
    res = np.empty(arr.shape, dtype=object)
    moved = np.moveaxis(arr, axis, -1)
    rmoved = np.moveaxis(res, axis, -1)
    for idx in np.ndindex(moved.shape[:-1]):
        r = rank1d(list(moved[idx]))
        for k, v in enumerate(r):
            rmoved[idx + (k,)] = v
    return SymNd(res)


def clear_caches(*classes):
    for cls in classes:
        for klass in cls.__mro__:
            for name, attr in list(vars(klass).items()):
                f = attr
                if hasattr(f, "cache_clear"):
                    try:
                        f.cache_clear()
                    except Exception:  # noqa
                        pass
