"""Scratch build of pyunicorn's compiled extensions from /repo's *current* sources.

The checks judge the sources in the working tree; the `.so` files lying in /repo/src are git-ignored
and may be stale.  `ensure_build()` hashes every file that influences the extensions, and (re)builds a
copy of the tree under /var/tmp/pyunicorn-verif/<hash>/src with the repository's own setup.py.  The
returned directory is put first on sys.path (and PYTHONPATH of replay subprocesses).
"""
import fcntl
import hashlib
import os
import shutil
import subprocess
import sys
import time

REPO = os.environ.get("VERIF_REPO", "/repo")
ROOT = os.environ.get("VERIF_SCRATCH", "/var/tmp/pyunicorn-verif")
PY = "/venv/bin/python"


def _ext_sources():
    out = [os.path.join(REPO, "setup.py")]
    base = os.path.join(REPO, "src/pyunicorn")
    for dp, dn, fn in os.walk(base):
        for f in fn:
            if f.endswith((".pyx", ".pxd", ".h")) or f == "src_numerics.c" or \
                    (dp.endswith("_ext") and f.endswith(".py")):
                out.append(os.path.join(dp, f))
    return sorted(out)


def source_hash():
    h = hashlib.sha1()
    for p in _ext_sources():
        h.update(p.encode())
        with open(p, "rb") as f:
            h.update(f.read())
    return h.hexdigest()[:16]


def py_hash():
    """hash of all .py sources (only informational; python files are synced on every call)"""
    h = hashlib.sha1()
    base = os.path.join(REPO, "src/pyunicorn")
    for dp, dn, fn in sorted(os.walk(base)):
        for f in sorted(fn):
            if f.endswith(".py"):
                with open(os.path.join(dp, f), "rb") as fh:
                    h.update(fh.read())
    return h.hexdigest()[:16]


def ensure_build(verbose=False):
    """returns the directory to put on sys.path (contains package `pyunicorn`, built from current sources)"""
    os.makedirs(ROOT, exist_ok=True)
    hx = source_hash()
    dest = os.path.join(ROOT, hx)
    lock = open(os.path.join(ROOT, ".lock"), "w")
    fcntl.flock(lock, fcntl.LOCK_EX)
    try:
        marker = os.path.join(dest, ".built")
        if not os.path.exists(marker):
            if os.path.exists(dest):
                shutil.rmtree(dest)
            # keep at most one older build
            olds = sorted((d for d in os.listdir(ROOT) if not d.startswith(".")),
                          key=lambda d: os.path.getmtime(os.path.join(ROOT, d)))
            for d in olds[:-1]:
                shutil.rmtree(os.path.join(ROOT, d), ignore_errors=True)
            os.makedirs(dest)
            t0 = time.time()
            subprocess.run(["rsync", "-a", "--exclude", ".git", "--exclude", "docs", "--exclude", "tests",
                            "--exclude", "*.so", "--exclude", "numerics.c", "--exclude", "build",
                            "--exclude", "*.egg-info", "--exclude", "__pycache__",
                            REPO + "/", dest + "/"], check=True)
            env = dict(os.environ)
            env.pop("PYTHONPATH", None)
            r = subprocess.run([PY, "setup.py", "build_ext", "--inplace", "-j", "4"], cwd=dest, env=env,
                               stdout=subprocess.PIPE, stderr=subprocess.STDOUT, text=True)
            if r.returncode != 0:
                sys.stderr.write(r.stdout[-4000:])
                raise RuntimeError("scratch build of pyunicorn extensions failed")
            shutil.rmtree(os.path.join(dest, "build"), ignore_errors=True)
            open(marker, "w").write(f"{time.time() - t0:.1f}")
            if verbose:
                print(f"[build] extensions built in {time.time() - t0:.1f}s -> {dest}")
        # python sources: always mirror the working tree (cheap)
        subprocess.run(["rsync", "-a", "--delete", "--include", "*/", "--include", "*.py", "--exclude", "*",
                        os.path.join(REPO, "src/pyunicorn") + "/", os.path.join(dest, "src/pyunicorn") + "/"],
                       check=True)
    finally:
        fcntl.flock(lock, fcntl.LOCK_UN)
        lock.close()
    return os.path.join(dest, "src")


def activate():
    """put the scratch build first on sys.path of this process"""
    p = ensure_build()
    for k in list(sys.modules):
        if k == "pyunicorn" or k.startswith("pyunicorn."):
            del sys.modules[k]
    if p in sys.path:
        sys.path.remove(p)
    sys.path.insert(0, p)
    os.environ["VERIF_BUILD_PATH"] = p
    return p


if __name__ == "__main__":
    print(ensure_build(verbose=True))
