"""C front end of Engine K: guarded, state-merging symbolic interpretation of the repository's `src_numerics.c` files
from clang's JSON AST (`clang -Xclang -ast-dump=json`).  Pointers are (array, element offset, accessing C type); every
dereference emits a byte-extent obligation against the NumPy buffer actually passed (element width included)."""
import hashlib
import json
import os
import subprocess

import z3

from . import kern, sx
from .kern import Arr, Event, UNDEF
from .sx import add, and_, div, eq, ge, gt, implies, is_sym, ite, le, lt, mul, ne, neg, not_, or_, sub, truth

REPO = kern.REPO
SIZEOF = {"char": 1, "signed char": 1, "unsigned char": 1, "short": 2, "int": 4, "unsigned int": 4, "long": 8, "unsigned long": 8,
          "long long": 8, "float": 4, "double": 8, "_Bool": 1}
DTYPE_SIZE = {"int8": 1, "bool": 1, "int16": 2, "int32": 4, "int64": 8, "float32": 4, "float64": 8}
C2DTYPE = {"char": "int8", "signed char": "int8", "short": "int16", "int": "int32", "unsigned int": "int32", "long": "int64",
           "unsigned long": "int64", "long long": "int64", "float": "float32", "double": "float64"}
INT_C = {"char", "signed char", "unsigned char", "short", "int", "unsigned int", "long", "unsigned long", "long long", "_Bool"}

_cache = {}


def fill_lines(tree):
    """clang's JSON dump prints a line number only when it changes: propagate the last one seen in document order"""
    last = [0]

    def loc(d):
        if not isinstance(d, dict):
            return
        for k in ("spellingLoc", "expansionLoc"):
            if k in d:
                loc(d[k])
        if "line" in d:
            last[0] = d["line"]
        elif "offset" in d:
            d["line"] = last[0]

    def rec(n):
        if isinstance(n, dict):
            if "loc" in n:
                loc(n["loc"])
            if "range" in n:
                loc(n["range"].get("begin"))
                loc(n["range"].get("end"))
            for c in n.get("inner", []):
                rec(c)
    rec(tree)


class CModule:
    def __init__(self, pkg):
        self.pkg = pkg
        self.path = os.path.join(REPO, f"src/pyunicorn/{pkg}/_ext/src_numerics.c")
        src = open(self.path).read()
        self.sha = hashlib.sha1(src.encode()).hexdigest()[:12]
        out = subprocess.run(["clang", "-Xclang", "-ast-dump=json", "-fsyntax-only", self.path], stdout=subprocess.PIPE,
                             stderr=subprocess.DEVNULL, text=True)
        tree = json.loads(out.stdout)
        fill_lines(tree)
        self.funcs = {}
        for n in tree.get("inner", []):
            if n.get("kind") == "FunctionDecl" and "includedFrom" not in n.get("loc", {}) and \
                    any(c.get("kind") == "CompoundStmt" for c in n.get("inner", [])):
                self.funcs[n["name"]] = n

    def func_info(self, name):
        f = self.funcs[name]
        line = f.get("loc", {}).get("line") or f.get("range", {}).get("begin", {}).get("line", 0)
        return f"src/pyunicorn/{self.pkg}/_ext/src_numerics.c:{line} {name} sha1={self.sha}"


def cmodule(pkg):
    if pkg not in _cache:
        _cache[pkg] = CModule(pkg)
    return _cache[pkg]


class CPtr:
    def __init__(self, arr, off, ctype):
        self.arr, self.off, self.ctype = arr, off, ctype

    def __repr__(self):
        return f"CPtr({self.arr.name or 'arr'}+{self.off}:{self.ctype})"


class LVal:
    """assignable location: variable name or (pointer) cell"""

    def __init__(self, kind, a, b=None):
        self.kind, self.a, self.b = kind, a, b


class CLoop:
    def __init__(self):
        self.brk = False
        self.cont = False


class Found(Exception):
    """raised when a safety event has been shown reachable (solver: sat) and the run was asked to stop at the first one"""

    def __init__(self, event, model):
        Exception.__init__(self, repr(event))
        self.event, self.model = event, model


class CRun:
    def __init__(self, mod, hyps=None, loop_cap=4096, prefix="c", stop_on=()):
        self.stop_on = set(stop_on)
        self.mod = mod if isinstance(mod, CModule) else cmodule(mod)
        self.events = []
        self.assumptions = []
        self.dead = False
        self.hyps = [h for h in (hyps or []) if h is not True]
        self._solver = None
        self.loop_cap = loop_cap
        self.nfresh = 0
        self.prefix = prefix
        self.stats = {"stmts": 0}

    # ---------------------------------------------------------------- events
    def feasible(self, c):
        if c is True:
            return True
        if c is False:
            return False
        if self._solver is None:
            self._solver = z3.Solver()
            self._solver.set("timeout", 2000)
            for h in self.hyps:
                self._solver.add(h)
            self._n = 0
        while self._n < len(self.assumptions):
            self._solver.add(self.assumptions[self._n])
            self._n += 1
        self._solver.push()
        self._solver.add(c)
        r = str(self._solver.check())
        self._last = (r, self._solver.model() if r == "sat" else None)
        self._solver.pop()
        return r != "unsat"

    def event(self, kind, cond, where, guard):
        c = and_(guard, cond)
        self._last = ("sat", None) if c is True else ("?", None)
        if c is False or not self.feasible(c):
            return
        self.events.append(Event(kind, c, where))
        if kind in self.stop_on and self._last[0] == "sat":
            raise Found(self.events[-1], self._last[1])
        self.dead = or_(self.dead, c)

    def ok(self):
        return not_(or_(*[e.cond for e in self.events])) if self.events else True

    def where(self, n):
        rng = n.get("range", {}).get("begin", {})
        return f"{self.mod.pkg}/_ext/src_numerics.c:{rng.get('line', rng.get('expansionLoc', {}).get('line', '?'))}"

    # ---------------------------------------------------------------- call
    def call(self, name, args):
        f = self.mod.funcs[name]
        params = [p for p in f["inner"] if p.get("kind") == "ParmVarDecl"]
        body = [c for c in f["inner"] if c.get("kind") == "CompoundStmt"][0]
        self.env = {}
        self.types = {}
        self.ret = False
        self.retval = None
        self.loops = []
        for p, a in zip(params, args):
            ty = p["type"]["qualType"]
            self.types[p["name"]] = ty
            if ty.endswith("*"):
                base = ty[:-1].strip()
                if isinstance(a, kern.Ptr):
                    a = CPtr(a.arr, 0, base)
                elif isinstance(a, Arr):
                    a = CPtr(a, 0, base)
                elif isinstance(a, CPtr):
                    a = CPtr(a.arr, a.off, base)
                self.env[p["name"]] = a
            else:
                self.env[p["name"]] = self.coerce(a, ty)
        self.block(body, True)
        return self.retval

    def coerce(self, v, ty):
        if isinstance(v, CPtr) or v is UNDEF or v is None:
            return v
        ty = ty.replace("const ", "").strip()
        if ty in INT_C:
            if isinstance(v, (bool, z3.BoolRef)):
                return sx.b2i(v)
            return sx.trunc(v)
        if ty in ("float", "double"):
            return sx.to_real(v)
        return v

    def live(self, g):
        g = and_(g, not_(self.ret), not_(self.dead))
        if self.loops:
            g = and_(g, not_(self.loops[-1].brk), not_(self.loops[-1].cont))
        return g

    # ---------------------------------------------------------------- statements
    def block(self, n, guard):
        k = n.get("kind")
        if k == "CompoundStmt":
            for s in n.get("inner", []):
                g = self.live(guard)
                if g is False:
                    return
                self.stmt(s, g)
        else:
            g = self.live(guard)
            if g is not False:
                self.stmt(n, g)

    def stmt(self, s, g):
        self.stats["stmts"] += 1
        k = s.get("kind")
        if k == "CompoundStmt":
            return self.block(s, g)
        if k == "DeclStmt":
            for d in s.get("inner", []):
                if d.get("kind") == "VarDecl":
                    self.types[d["name"]] = d["type"]["qualType"]
                    init = [c for c in d.get("inner", []) if "kind" in c]
                    if init:
                        self.assign_var(d["name"], self.ev(init[0], g), g)
                    else:
                        self.env.setdefault(d["name"], UNDEF)
            return
        if k == "ForStmt":
            init, _, cond, inc, body = (s["inner"] + [None] * 5)[:5]
            if init and "kind" in init:
                self.stmt(init, g)
            lp = CLoop()
            self.loops.append(lp)
            try:
                count = 0
                while True:
                    g0 = and_(g, not_(lp.brk), not_(self.ret), not_(self.dead))
                    if g0 is False:
                        break
                    c = truth(self.ev(cond, g0)) if cond and "kind" in cond else True
                    gi = and_(g0, c)
                    if gi is False:
                        break
                    if is_sym(c) and not isinstance(c, bool):
                        # data dependent trip count: not present in these kernels; bounded unrolling with an unwinding event
                        if count >= 64:
                            self.events.append(Event("unwind", gi, self.where(s)))
                            break
                    if count >= self.loop_cap:
                        raise kern.Unsupported("C loop exceeds the unrolling cap")
                    lp.cont = False
                    self.block(body, gi)
                    gi2 = and_(gi, not_(lp.brk), not_(self.ret), not_(self.dead))
                    if inc and "kind" in inc and gi2 is not False:
                        self.ev(inc, gi2)
                    count += 1
            finally:
                self.loops.pop()
            return
        if k == "IfStmt":
            inner = s["inner"]
            c = truth(self.ev(inner[0], g))
            g1 = and_(g, not_(self.dead), c)
            if g1 is not False:
                self.block(inner[1], g1)
            if len(inner) > 2:
                g2 = and_(g, not_(self.dead), not_(c))
                if g2 is not False:
                    self.block(inner[2], g2)
            return
        if k == "ContinueStmt":
            self.loops[-1].cont = or_(self.loops[-1].cont, g)
            return
        if k == "BreakStmt":
            self.loops[-1].brk = or_(self.loops[-1].brk, g)
            return
        if k == "ReturnStmt":
            inner = [c for c in s.get("inner", []) if "kind" in c]
            v = self.ev(inner[0], g) if inner else None
            self.retval = v if (self.ret is False or self.retval is None) else ite(g, v, self.retval)
            self.ret = or_(self.ret, g)
            return
        if k == "NullStmt":
            return
        self.ev(s, g)          # expression statement

    # ---------------------------------------------------------------- expressions
    def assign_var(self, name, v, g):
        v = self.coerce(v, self.types.get(name, ""))
        old = self.env.get(name, UNDEF)
        if g is True or old is UNDEF or isinstance(v, CPtr):
            if isinstance(v, CPtr) and g is not True and isinstance(old, CPtr) and old is not UNDEF:
                if old.arr is v.arr:
                    v = CPtr(v.arr, ite(g, v.off, old.off), v.ctype)
                else:
                    raise kern.Unsupported("pointer to different objects under a symbolic guard")
            self.env[name] = v
        else:
            self.env[name] = ite(g, v, old)

    def lval(self, n, g):
        k = n.get("kind")
        if k == "ParenExpr":
            return self.lval(n["inner"][0], g)
        if k == "DeclRefExpr":
            return LVal("var", n["referencedDecl"]["name"])
        if k == "UnaryOperator" and n.get("opcode") == "*":
            p = self.ev(n["inner"][0], g)
            return LVal("mem", p)
        if k == "ArraySubscriptExpr":
            p = self.ev(n["inner"][0], g)
            i = self.ev(n["inner"][1], g)
            return LVal("mem", CPtr(p.arr, add(p.off, i), p.ctype))
        raise kern.Unsupported(f"lvalue {k}")

    def check_access(self, p, n, g):
        """byte extent obligation for an access through pointer p; returns element index into arr.data or None if the
        accessing width differs from the array's element width (then the value is not representable)"""
        esz = SIZEOF.get(p.ctype.replace("const ", "").strip(), None)
        asz = DTYPE_SIZE.get(p.arr.dtype, None)
        if esz is None or asz is None:
            raise kern.Unsupported(f"sizeof {p.ctype} / {p.arr.dtype}")
        nbytes = len(p.arr.data) * asz
        lo = mul(p.off, esz)
        self.event("OutOfBounds", or_(lt(lo, 0), gt(add(lo, esz), nbytes)), self.where(n), g)
        return esz == asz

    def load(self, lv, n, g):
        if lv.kind == "var":
            v = self.env.get(lv.a, UNDEF)
            return v
        p = lv.a
        same_width = self.check_access(p, n, g)
        if not same_width:
            self.events.append(Event("TypePunning", and_(g, True), self.where(n)))
            return self.fresh(p.ctype)
        off = p.off
        data = p.arr.data
        if not is_sym(off):
            if 0 <= off < len(data):
                return data[off]
            return UNDEF
        out = None
        for i in range(len(data) - 1, -1, -1):
            out = data[i] if out is None else ite(eq(off, i), data[i], out)
        return UNDEF if out is None else out

    def fresh(self, ctype):
        self.nfresh += 1
        if ctype.replace("const ", "").strip() in INT_C:
            return z3.Int(f"{self.prefix}_junk{self.nfresh}")
        return z3.Real(f"{self.prefix}_junk{self.nfresh}")

    def store(self, lv, v, n, g):
        if lv.kind == "var":
            self.assign_var(lv.a, v, g)
            return
        p = lv.a
        same_width = self.check_access(p, n, g)
        g = and_(g, not_(self.dead))
        if not same_width:
            self.events.append(Event("TypePunning", and_(g, True), self.where(n)))
            return
        v = self.coerce(v, p.ctype)
        off = p.off
        data = p.arr.data
        p.arr.version += 1
        if not is_sym(off):
            if 0 <= off < len(data):
                data[off] = v if g is True else ite(g, v, data[off])
            return
        for i in range(len(data)):
            c = and_(g, eq(off, i))
            if c is not False:
                data[i] = ite(c, v, data[i])

    def ev(self, n, g):
        k = n.get("kind")
        if k in ("ParenExpr", "ConstantExpr"):
            return self.ev(n["inner"][0], g)
        if k == "IntegerLiteral":
            return int(n["value"])
        if k == "FloatingLiteral":
            from fractions import Fraction
            return Fraction(n["value"])
        if k == "ImplicitCastExpr" or k == "CStyleCastExpr":
            ck = n.get("castKind")
            inner = n["inner"][0]
            if ck == "LValueToRValue":
                return self.load(self.lval(inner, g), inner, g)
            v = self.ev(inner, g)
            if ck in ("IntegralToFloating", "FloatingCast"):
                return sx.to_real(v) if not isinstance(v, CPtr) else v
            if ck in ("FloatingToIntegral",):
                return sx.trunc(v)
            if ck in ("IntegralCast", "NoOp", "FunctionToPointerDecay", "ArrayToPointerDecay", "IntegralToBoolean", "FloatingToBoolean"):
                return v
            if ck == "BitCast":
                ty = n["type"]["qualType"]
                if isinstance(v, CPtr) and ty.endswith("*"):
                    base = ty[:-1].strip()
                    if v.arr.name == "alloca" and v.arr.dtype == "int8" and not is_sym(v.off) and v.off == 0:
                        # freshly allocated memory has no declared type: it takes the type of the first pointer it is converted to
                        dt = C2DTYPE.get(base.replace("const ", "").strip())
                        if dt is not None:
                            cnt = len(v.arr.data) // DTYPE_SIZE[dt]
                            return CPtr(Arr((cnt,), [UNDEF] * cnt, dt, "alloca:" + dt), 0, base)
                    return CPtr(v.arr, v.off, base)
                return v
            if ck == "NullToPointer":
                return None
            return v
        if k == "DeclRefExpr":
            name = n["referencedDecl"]["name"]
            if name in self.env:
                return self.env[name]
            return ("fn", name)
        if k == "UnaryOperator":
            op = n["opcode"]
            if op in ("++", "--"):
                lv = self.lval(n["inner"][0], g)
                old = self.load(lv, n, g)
                d = 1 if op == "++" else -1
                new = CPtr(old.arr, add(old.off, d), old.ctype) if isinstance(old, CPtr) else add(old, d)
                self.store(lv, new, n, g)
                return old if n.get("isPostfix") else new
            if op == "*":
                return self.load(self.lval(n, g), n, g)
            v = self.ev(n["inner"][0], g)
            if op == "-":
                return neg(v)
            if op == "+":
                return v
            if op == "!":
                return not_(truth(v))
            raise kern.Unsupported(f"unary {op}")
        if k == "ArraySubscriptExpr":
            return self.load(self.lval(n, g), n, g)
        if k == "CompoundAssignOperator":
            lv = self.lval(n["inner"][0], g)
            old = self.load(lv, n, g)
            rhs = self.ev(n["inner"][1], g)
            new = self.binop(n["opcode"][:-1], old, rhs, n, g, n.get("computeResultType", n["type"])["qualType"])
            self.store(lv, new, n, g)
            return new
        if k == "BinaryOperator":
            op = n["opcode"]
            if op == "=":
                v = self.ev(n["inner"][1], g)
                self.store(self.lval(n["inner"][0], g), v, n, g)
                return v
            if op == "&&":
                a = truth(self.ev(n["inner"][0], g))
                if a is False:
                    return False
                b = truth(self.ev(n["inner"][1], and_(g, a)))
                return and_(a, b)
            if op == "||":
                a = truth(self.ev(n["inner"][0], g))
                if a is True:
                    return True
                b = truth(self.ev(n["inner"][1], and_(g, not_(a))))
                return or_(a, b)
            if op == ",":
                self.ev(n["inner"][0], g)
                return self.ev(n["inner"][1], g)
            a = self.ev(n["inner"][0], g)
            b = self.ev(n["inner"][1], g)
            return self.binop(op, a, b, n, g, n["type"]["qualType"])
        if k == "ConditionalOperator":
            c = truth(self.ev(n["inner"][0], g))
            a = self.ev(n["inner"][1], and_(g, c)) if c is not False else None
            b = self.ev(n["inner"][2], and_(g, not_(c))) if c is not True else None
            return a if c is True else (b if c is False else ite(c, a, b))
        if k == "CallExpr":
            f = self.ev(n["inner"][0], g)
            args = [self.ev(a, g) for a in n["inner"][1:]]
            name = f[1] if isinstance(f, tuple) else str(f)
            if name in ("fabs", "fabsf", "abs", "labs"):
                return sx.abs_(args[0])
            if name in ("sqrt", "sqrtf"):
                x = args[0]
                if not is_sym(x):
                    import math
                    return math.sqrt(x)
                s = z3.Real(f"{self.prefix}_sqrt{len(self.assumptions)}")
                self.assumptions.append(z3.And(s >= 0, s * s == x))
                return s
            if name in ("log", "logf"):
                x = args[0]
                self.event("DomainError", le(x, 0), self.where(n), g)
                lf = z3.Function("c_log", z3.RealSort(), z3.RealSort())
                return lf(sx.lift(x) if not is_sym(x) else x)
            if name in ("alloca", "__builtin_alloca", "ALLOCA", "malloc"):
                sz = args[0]
                if is_sym(sz):
                    raise kern.Unsupported("symbolic allocation size")
                self.event("NegativeAllocation", lt(sz, 0), self.where(n), g)
                return CPtr(Arr((max(int(sz), 0),), [UNDEF] * max(int(sz), 0), "int8", "alloca"), 0, "char")
            raise kern.Unsupported(f"C call {name}")
        if k == "UnaryExprOrTypeTraitExpr":
            ty = n.get("argType", {}).get("qualType")
            return SIZEOF.get(ty, 8)
        raise kern.Unsupported(f"C expression {k}")

    def binop(self, op, a, b, n, g, rtype):
        if isinstance(a, CPtr) or isinstance(b, CPtr):
            if op == "+":
                p, i = (a, b) if isinstance(a, CPtr) else (b, a)
                return CPtr(p.arr, add(p.off, i), p.ctype)
            if op == "-" and isinstance(a, CPtr) and not isinstance(b, CPtr):
                return CPtr(a.arr, sub(a.off, b), a.ctype)
            raise kern.Unsupported("pointer arithmetic " + op)
        integral = rtype.replace("const ", "").strip() in INT_C
        if op == "+":
            return add(a, b)
        if op == "-":
            return sub(a, b)
        if op == "*":
            if isinstance(a, z3.ArithRef) and isinstance(b, z3.ArithRef) and a.is_int() and b.is_int():
                pass
            return mul(a, b)
        if op == "/":
            if integral:
                self.event("DivisionByZero", eq(b, 0), self.where(n), g)
                # C truncating division
                if not is_sym(a) and not is_sym(b):
                    return int(a / b) if b != 0 else UNDEF
                q = sx.floordiv(sx.abs_(a), sx.abs_(b))
                return ite(eq(gt(a, 0), gt(b, 0)), q, neg(q))
            # floating division by zero is defined in IEEE (inf / nan): not UB; value left to the model
            if not is_sym(b) and b == 0:
                return UNDEF
            return div(a, b)
        if op == "%":
            self.event("DivisionByZero", eq(b, 0), self.where(n), g)
            return sx.mod(a, b)
        if op in ("<", "<=", ">", ">=", "==", "!="):
            return {"<": lt, "<=": le, ">": gt, ">=": ge, "==": eq, "!=": ne}[op](a, b)
        if op in ("|", "&", "^") and integral:
            if not is_sym(a) and not is_sym(b):
                return {"|": a | b, "&": a & b, "^": a ^ b}[op]
            self.nfresh += 1
            j = z3.Int(f"{self.prefix}_bit{self.nfresh}")
            if op == "|":
                # exact zero test; otherwise bounded by max(a,b) <= a|b <= a+b for non-negative operands
                self.assumptions.append(z3.Implies(z3.And(sx.lift(a) >= 0, sx.lift(b) >= 0),
                                                   z3.And(j >= sx.lift(a), j >= sx.lift(b), j <= sx.lift(a) + sx.lift(b))))
                self.assumptions.append((j == 0) == z3.And(sx.lift(a) == 0, sx.lift(b) == 0))
                return j
            if op == "&":
                self.assumptions.append(z3.Implies(z3.And(sx.lift(a) >= 0, sx.lift(b) >= 0), z3.And(j >= 0, j <= sx.lift(a), j <= sx.lift(b))))
                return j
            return j
        raise kern.Unsupported(f"C operator {op}")
