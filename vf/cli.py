"""./check <id> quick|thorough | --replay <path>"""
import importlib
import json
import os
import sys
import time

from . import build, core


def main(argv):
    if len(argv) < 2:
        print("usage: check <id> quick|thorough|--replay <path>")
        return 3
    prop = argv[0]
    try:
        build.activate()
    except Exception as e:  # noqa
        print(f"cannot build /repo's extensions: {e}")
        if argv[1] == "--replay":
            return 3
        # a tree that does not build cannot be judged; not an alarm
        return 3
    mod = importlib.import_module(f"vf.props.{prop}")
    if argv[1] == "--replay":
        w = json.load(open(argv[2]))
        ok, text = mod.replay(w)
        print(text)
        if ok:
            print(f"VIOLATION property={prop} replay={argv[2]}")
            return 1
        print("replay: not reproduced")
        return 0
    tier = argv[1]
    os.environ["VERIF_TIER"] = tier
    t0 = time.time()
    extra = dict(getattr(mod, "META", {}))
    prep = mod.prepare(tier) if hasattr(mod, "prepare") else {}
    extra.update(prep or {})
    obs = mod.obligations(tier)
    print(f"[{prop}] {tier}: {len(obs)} obligation groups, build={os.environ.get('VERIF_BUILD_PATH')}")
    results = core.run_obligations(obs)
    # ---- replay every sat before anything is reported
    reported = {}
    replays = []
    exit_code = 0
    for r in results:
        if r["status"] != core.VIOLATED:
            continue
        sig = r.get("signature") or r["obligation"]
        if sig in reported:
            rep, path = reported[sig]
        else:
            path = core.write_replay(prop, sig, r.get("witness", {}))
            rep, out = core.run_replay(prop, path)
            if rep == "crash":
                rep = bool(getattr(mod, "CRASH_IS_VIOLATION", False))
                out += "\n(crash of the replay process)"
            reported[sig] = (rep, path)
            replays.append({"signature": sig, "path": os.path.relpath(path, core.VERIF), "reproduced": bool(rep),
                            "output": out[-600:]})
            if rep:
                k = core.known_lookup(prop, sig)
                if k:
                    print(f"KNOWN-FINDING: property={prop} {sig}: {k.get('what', '')}")
                else:
                    print("\n".join(l for l in out[-1500:].splitlines() if not l.startswith("VIOLATION")))
                    print(f"VIOLATION property={prop} replay={path}")
                    exit_code = 1
        r["replay"] = os.path.relpath(path, core.VERIF)
        if rep:
            if core.known_lookup(prop, sig):
                r["known"] = True
        else:
            r["status"] = core.INCONCLUSIVE
            rep_out = next((x["output"] for x in replays if x["signature"] == sig), "")
            if "Traceback" in rep_out:
                r["reason"] = "replay harness raised: " + rep_out.strip().splitlines()[-1][:160]
            else:
                r["reason"] = "non-reproducing model (encoding or environment model suspect)"
    extra["replays"] = replays
    n = {"held": 0, "violated": 0, "inconclusive": 0}
    for r in results:
        n[r["status"]] += 1
        tag = "known" if r.get("known") else r["status"]
        line = f"  {tag:13s} {r['obligation']}  [{r.get('bound', '')}] {r.get('seconds', '')}s"
        if r["status"] == core.INCONCLUSIVE:
            line += f"  INCONCLUSIVE {r.get('reason', '')}"
        print(line)
    wall = time.time() - t0
    path = core.write_evidence(prop, tier, results, wall, extra)
    print(f"[{prop}] held={n['held']} violated={n['violated']} inconclusive={n['inconclusive']} "
          f"wall={wall:.1f}s evidence={path}")
    return exit_code


if __name__ == "__main__":
    try:
        code = main(sys.argv[1:])
    except SystemExit:
        raise
    except BaseException:  # noqa  -- a crash of the machinery is a harness error (3), never to be mistaken for a violation (1)
        import traceback
        traceback.print_exc()
        print("HARNESS-ERROR: the check machinery itself failed; no verdict")
        code = 3
    sys.exit(code)
