"""Construction of pyunicorn Network objects over symbolic data for Engine P + igraph stand-in."""
import itertools
import math

import numpy as np
import z3

from . import kern, pe, sx
from .pe import SB, SV, SSparse, SymNd, _num, unwrap, wrap


class SEdge:
    def __init__(self, tup, present, store):
        self.tuple = tup
        self.source, self.target = tup
        self.present = present
        self._store = store

    def __getitem__(self, name):
        v = self._store[name][self.tuple]
        if self.present is True:
            return v
        return wrap(sx.ite(self.present, _num(v), 0))

    def __setitem__(self, name, value):
        self._store.setdefault(name, {})[self.tuple] = value


class SEdgeSeq:
    def __init__(self, edges, store):
        self._edges = edges
        self._store = store

    def __iter__(self):
        return iter(self._edges)

    def __len__(self):
        return len(self._edges)

    def attributes(self):
        return list(self._store.keys())

    def __getitem__(self, name):
        if isinstance(name, str):
            return [e[name] for e in self._edges]
        return self._edges[name]

    def __setitem__(self, name, values):
        if not isinstance(values, (list, tuple, np.ndarray)):
            values = [values] * len(self._edges)
        for e, v in zip(self._edges, values):
            e[name] = v

    def __delitem__(self, name):
        del self._store[name]


class SGraph:
    """stand-in for igraph.Graph: edge table with presence conditions + the contract of distances()"""

    def __init__(self, n, present, directed):
        self.n = n
        self.directed = directed
        self._store = {}
        edges = []
        for (i, j), p in sorted(present.items()):
            if p is False:
                continue
            edges.append(SEdge((i, j), p, self._store))
        self.es = SEdgeSeq(edges, self._store)
        self.present = present

    def vcount(self):
        return self.n

    def is_directed(self):
        return self.directed

    def ecount(self):
        if all(e.present is True for e in self.es):
            return len(self.es)
        raise pe.Unsupported("ecount with symbolic edges")

    def _adj_cond(self, i, j):
        if self.directed:
            return self.present.get((i, j), False)
        return self.present.get((min(i, j), max(i, j)), False)

    def distances(self, source=None, target=None, weights=None, mode=None):
        n = self.n
        conc = all(p is True or p is False for p in self.present.values())
        if not conc:
            raise pe.Unsupported("shortest paths over symbolic adjacency (use topologies mode)")
        if weights is None:
            D = [[math.inf] * n for _ in range(n)]
            for i in range(n):
                D[i][i] = 0
                frontier = [i]
                d = 0
                while frontier:
                    d += 1
                    nxt = []
                    for u in frontier:
                        for v in range(n):
                            if self._adj_cond(u, v) is True and D[i][v] == math.inf:
                                D[i][v] = d
                                nxt.append(v)
                    frontier = nxt
            return D
        # weighted: min-plus closure over symbolic positive link weights (merged with ite-min)
        W = self._store.get(weights, {})
        INFV = None
        D = [[INFV] * n for _ in range(n)]
        for i in range(n):
            D[i][i] = 0
        for (i, j), p in self.present.items():
            if p is True:
                w = _num(W[(i, j)])
                D[i][j] = w if D[i][j] is None else sx.ite(sx.lt(w, D[i][j]), w, D[i][j])
                if not self.directed:
                    D[j][i] = D[i][j]
        for k in range(n):
            for i in range(n):
                for j in range(n):
                    if D[i][k] is None or D[k][j] is None:
                        continue
                    c = sx.add(D[i][k], D[k][j])
                    D[i][j] = c if D[i][j] is None else sx.ite(sx.lt(c, D[i][j]), c, D[i][j])
        return [[math.inf if x is None else wrap(x) for x in row] for row in D]

    def subgraph(self, nodes):
        nodes = [int(v) for v in nodes]
        idx = {v: k for k, v in enumerate(nodes)}
        present = {}
        remap = {}
        for (i, j), p in self.present.items():
            if i in idx and j in idx and p is not False:
                a, b = idx[i], idx[j]
                key = (a, b) if (self.directed or a < b) else (b, a)
                present[key] = p
                remap[key] = (i, j)
        sub = SSubgraph(len(nodes), present, self.directed)
        for name, table in self._store.items():
            sub._store[name] = {k: table[remap[k]] for k in present if remap[k] in table}
        return sub

    def connected_components(self):
        n = self.n
        seen = [False] * n
        comps = []
        for s in range(n):
            if seen[s]:
                continue
            comp = [s]
            seen[s] = True
            q = [s]
            while q:
                u = q.pop()
                for v in range(n):
                    c = or_adj(self, u, v)
                    if c is True and not seen[v]:
                        seen[v] = True
                        comp.append(v)
                        q.append(v)
                    elif c is not False and c is not True:
                        raise pe.Unsupported("components over symbolic adjacency")
            comps.append(sorted(comp))
        return SComponents(self, comps)


def or_adj(g, u, v):
    a = g._adj_cond(u, v)
    if g.directed and a is not True:
        b = g._adj_cond(v, u)
        return True if b is True else a
    return a


class SComponents(list):
    def __init__(self, g, comps):
        super().__init__(comps)
        self.g = g

    def giant(self):
        big = max(self, key=len)
        return SGraph(len(big), {}, self.g.directed)

    def subgraph(self, c):
        nodes = self[c]
        idx = {v: k for k, v in enumerate(nodes)}
        present = {}
        for (i, j), p in self.g.present.items():
            if i in idx and j in idx and p is not False:
                present[(idx[i], idx[j])] = p
        return SSubgraph(len(nodes), present, self.g.directed)


class SSubgraph(SGraph):
    def get_adjacency(self, type=2):
        n = self.n
        A = [[0] * n for _ in range(n)]
        for (i, j), p in self.present.items():
            v = 1 if p is True else wrap(sx.ite(p, 1, 0))
            A[i][j] = v
            if not self.directed:
                A[j][i] = v
        return type_data(A)


class type_data:
    def __init__(self, A):
        self.data = A


# ------------------------------------------------------------------------------------------------
def bits_adjacency(n, directed=False, prefix="a"):
    """(SymNd adjacency with If(bit,1,0) entries, presence dict)"""
    A = np.zeros((n, n), dtype=object)
    present = {}
    for i in range(n):
        for j in range(n):
            if i == j:
                continue
            if directed or i < j:
                b = z3.Bool(f"{prefix}_{i}_{j}")
                present[(i, j)] = b
                A[i, j] = SV(z3.If(b, z3.IntVal(1), z3.IntVal(0)))
                if not directed:
                    A[j, i] = A[i, j]
    return SymNd(A), present


def concrete_adjacency(G, directed=False):
    n = len(G)
    A = np.zeros((n, n), dtype=object)
    for i in range(n):
        for j in range(n):
            A[i, j] = SV(0)
    present = {}
    for i in range(n):
        for j in range(n):
            if G[i][j]:
                A[i, j] = SV(1)
                if directed or i < j:
                    present[(i, j)] = True
    return SymNd(A), present


def make_network(cls, A, w, present, directed=False, link_attrs=None, **attrs):
    """build an instance without running __init__ (representation invariant written out here and
    cross-checked against the real constructor in validation)"""
    net = object.__new__(cls)
    n = A.shape[0]
    net.directed = directed
    net.silence_level = 3
    net._mut_A = 1
    net._mut_nw = 1
    net._mut_la = 0
    net.N = n
    net.sp_A = SSparse(A)
    net.sp_dtype = np.int16
    net.graph = SGraph(n, present, directed)
    net._node_weights = w
    net.total_node_weight = w.sum()
    net.mean_node_weight = w.mean()
    cnt = A.sum()
    net.n_links = cnt if directed else cnt / 2
    net.link_density = None
    for k, v in attrs.items():
        setattr(net, k, v)
    if link_attrs:
        for name, W in link_attrs.items():
            for e in net.graph.es:
                e[name] = W[e.tuple]
            net._mut_la += 1
    return net


def split_network(A, w, present, v, p, directed=False, link_attrs=None):
    """the split of the statement: node v -> twins v and N, mutually linked, sharing v's neighbours; weights
    (1-p) w_v and p w_v; link attributes copied, the twin-twin link carries W[v, v]"""
    n = A.shape[0]
    B = np.zeros((n + 1, n + 1), dtype=object)
    B[:n, :n] = A
    B[:n, n] = A[:, v]
    B[n, :n] = A[v, :]
    B[v, n] = 1
    B[n, v] = 1
    w2 = np.zeros(n + 1, dtype=object)
    w2[:n] = w
    w2[n] = p * w[v]
    w2[v] = (1 - p) * w[v]
    pres2 = dict(present)
    for i in range(n):
        if i == v:
            continue
        if directed:
            if (i, v) in present:
                pres2[(i, n)] = present[(i, v)]
            if (v, i) in present:
                pres2[(n, i)] = present[(v, i)]
        else:
            key = (min(i, v), max(i, v))
            if key in present:
                pres2[(i, n)] = present[key]
    pres2[(v, n)] = True
    if directed:
        pres2[(n, v)] = True
    la2 = None
    if link_attrs:
        la2 = {}
        for name, W in link_attrs.items():
            W2 = np.zeros((n + 1, n + 1), dtype=object)
            W2[:n, :n] = W
            W2[:n, n] = W[:, v]
            W2[n, :n] = W[v, :]
            W2[v, n] = W2[n, v] = W2[n, n] = W[v, v]
            la2[name] = SymNd(W2)
    return SymNd(B), SymNd(w2), pres2, la2


# ------------------------------------------------------------------------------------------------ kernel shims
def arr_from(a, dtype):
    """SymNd / ndarray -> kern.Arr"""
    a = np.asarray(a)
    return kern.Arr(a.shape, [_num(x) for x in a.ravel()], dtype)


def arr_to(a):
    out = np.empty(len(a.data), dtype=object)
    for i, x in enumerate(a.data):
        out[i] = wrap(x) if (sx.is_sym(x) or not isinstance(x, (int, float))) else x
    return SymNd(out.reshape(a.shape))


def kernel_shim(pkg, fn, spec, loop_bound=None, extern=None):
    """python callable that runs kernel `fn` of package `pkg` through Engine K.
    spec: list of dtype names for array arguments (None = scalar)."""
    def call(*args):
        ex = pe.current()
        mod = kern.module(pkg)
        conv = []
        arrs = []
        for a, dt in zip(args, spec):
            if dt is None:
                conv.append(_num(a) if isinstance(a, (SV, SB)) else (a.item() if isinstance(a, np.generic) else a))
            else:
                ka = arr_from(a, dt)
                conv.append(ka)
                arrs.append((a, ka))
        lb = loop_bound or (max([max(k.shape) if k.shape else 1 for _, k in arrs] + [1]) + 1)
        run = kern.Run(mod, loop_bound=lb, split=False, hyps=ex.path_condition() if ex else None,
                       prefix=f"kp{ex.nfresh if ex else 0}", extern=extern)
        res = run.call(fn, conv)
        if ex is not None:
            ex.nfresh += 1000
            for c in run.assumptions:
                ex.extra.append(c)
                ex.solver.add(c)
            bad = run.exc()
            if bad is not False:
                ex.notes.append((fn, bad))
        # write back mutated arrays
        for orig, ka in arrs:
            if isinstance(orig, np.ndarray) and orig.dtype == object:
                flat = np.asarray(orig).reshape(-1)
                for i, x in enumerate(ka.data):
                    flat[i] = wrap(x) if sx.is_sym(x) else x

        def back(r):
            if isinstance(r, kern.Arr):
                return arr_to(r)
            if isinstance(r, tuple):
                return tuple(back(x) for x in r)
            return wrap(r)
        return back(res)
    return call
