"""C13 — data windows select exactly the requested samples; anomalies sum (Engine P on Data / ClimateData / GeoGrid)."""
import itertools

import numpy as np
import z3

from .. import core, pe, sx
from ..core import HELD, INCONCLUSIVE, VIOLATED, Q, result
from ..pe import SV, Explorer, SymNd
from ..sx import and_, eq, ge, le, ne, not_, or_

PROP = "C13"
META = {
    "bounds": "T<=3 time stamps (increasing, symbolic) x N<=2 grid points (symbolic lat/lon), symbolic observable and window bounds; "
              "window sequences of length <=2; annual cycle lengths 1..3 with T<=5 incl. non-dividing lengths (symbolic values, concrete shapes); "
              "the float32 storage of the axes is not modelled (with NumPy 2 python-float bounds are compared in the axis dtype, a first IEEE "
              "lemma assuming double comparison produced a non-reproducing model and was removed)",
    "assumptions": ["exact real arithmetic in the window comparisons (the float32 cast of the stored time/lat/lon axes is decided "
                    "separately by an IEEE query)", "membership masks fork: every in/out pattern of samples is a separate path"],
    "outside": ["NetCDF loading", "indices_selected_months for cycle lengths other than 12/360 (NotImplementedError by design)",
                "shuffled_anomaly beyond 'is a column-wise permutation' (random)"],
}


def mods():
    from pyunicorn.core import data, grid, geo_grid
    from pyunicorn.climate import climate_data
    return [data, grid, geo_grid, climate_data]


def sym_vec(n, prefix):
    a = np.empty(n, dtype=object)
    for i in range(n):
        a[i] = SV(z3.Real(f"{prefix}{i}"))
    return SymNd(a)


def build_inputs(T, N):
    t = sym_vec(T, "t")
    lat, lon = sym_vec(N, "lat"), sym_vec(N, "lon")
    obs = np.empty((T, N), dtype=object)
    for i in range(T):
        for j in range(N):
            obs[i, j] = SV(z3.Real(f"o_{i}_{j}"))
    hyps = [t[i].v < t[i + 1].v for i in range(T - 1)]
    return t, lat, lon, SymNd(obs), hyps


def sym_window(tag):
    w = {k: SV(z3.Real(f"{tag}_{k}")) for k in ("time_min", "time_max", "lat_min", "lat_max", "lon_min", "lon_max")}
    hyps = [w["time_min"].v <= w["time_max"].v, w["lat_min"].v <= w["lat_max"].v, w["lon_min"].v <= w["lon_max"].v]
    return w, hyps


def member_spec(t, lat, lon, w):
    """statement: closed window; full range along an axis whose two bounds coincide (space: lat or lon pair)"""
    tm = [or_(eq(w["time_min"].v, w["time_max"].v), and_(ge(x.v, w["time_min"].v), le(x.v, w["time_max"].v))) for x in t]
    all_space = or_(eq(w["lat_min"].v, w["lat_max"].v), eq(w["lon_min"].v, w["lon_max"].v))
    sm = [or_(all_space, and_(ge(a.v, w["lat_min"].v), le(a.v, w["lat_max"].v), ge(b.v, w["lon_min"].v), le(b.v, w["lon_max"].v)))
          for a, b in zip(lat, lon)]
    return tm, sm


def view_bad(d, t, lat, lon, obs, tm, sm):
    """list of (label, bad) comparing the data object's current view with the membership spec; under the current
    path the membership conditions are decided, so the expected index sets are obtained by asking the path solver"""
    ex = pe.current()
    T, N = len(t), len(lat)
    selt = [i for i in range(T) if decided(ex, tm[i])]
    sels = [j for j in range(N) if decided(ex, sm[j])]
    out = []
    O = np.asarray(d.observable(), dtype=object)
    g = d.grid.grid()
    if O.shape != (len(selt), len(sels)):
        out.append(("observable-shape", True))
        return out
    for a, i in enumerate(selt):
        for b, j in enumerate(sels):
            out.append(("observable-values", ne(pe._num(O[a, b]), obs[i, j].v)))
    gt, gla, glo = np.asarray(g["time"], dtype=object), np.asarray(g["lat"], dtype=object), np.asarray(g["lon"], dtype=object)
    if gt.shape != (len(selt),) or gla.shape != (len(sels),) or glo.shape != (len(sels),):
        out.append(("grid-shape", True))
        return out
    for a, i in enumerate(selt):
        out.append(("grid-time", ne(pe._num(gt[a]), t[i].v)))
    for b, j in enumerate(sels):
        out.append(("grid-lat", ne(pe._num(gla[b]), lat[j].v)))
        out.append(("grid-lon", ne(pe._num(glo[b]), lon[j].v)))
    gs = d.grid.grid_size()
    out.append(("grid_size", gs["time"] != len(selt) or gs["space"] != len(sels)))
    return out


def decided(ex, cond):
    """truth value of a membership condition on the current path.  The library has already branched on its own
    comparisons; the statement's condition is decided by the solver under the path condition -- if it is not
    determined, both the library's mask and the statement disagree somewhere: handled by forking on it."""
    if cond is True or cond is False:
        return cond
    return ex.branch(cond)


def finish(name, hyps, harness, funcs, bound, sig, witfn, max_paths=3000):
    ex = Explorer(hyps, max_paths=max_paths)
    try:
        paths = ex.run(harness)
    except pe.Unsupported as e:
        return result(name, INCONCLUSIVE, reason=f"unsupported: {e}", functions=funcs, bound=bound)
    finally:
        from pyunicorn.climate.climate_data import ClimateData
        pe.clear_caches(ClimateData)
    nq = 0
    for p in paths:
        for lab, b in p.result:
            if b is False:
                continue
            if b is True:
                v, m = Q.check(hyps + p.cond(), 30, tag=f"{name}|{lab}|path-model")
                return result(name, VIOLATED, functions=funcs, bound=bound, twin="sat", signature=f"{sig}|{lab}", witness=witfn(m, lab))
            nq += 1
            v, m = Q.check(hyps + p.cond() + [b], 30, tag=f"{name}|{lab}")
            if v == "sat":
                m = core.normalised_model(hyps + p.cond() + [b], 30, tag=f"{name}|{lab}|normalise") or m
                return result(name, VIOLATED, functions=funcs, bound=bound, twin="sat", signature=f"{sig}|{lab}", witness=witfn(m, lab))
            if v != "unsat":
                return result(name, INCONCLUSIVE, reason=f"unknown at {lab}", functions=funcs, bound=bound)
    if ex.truncated:
        return result(name, INCONCLUSIVE, reason=f"path cap {max_paths} reached", functions=funcs, bound=bound)
    return result(name, HELD, functions=funcs, bound=bound, twin="sat", detail=f"{ex.paths} paths, {nq} queries")


def ob_window(name, T, N, seq):
    """Data(window=w1) [; set_window(w2)] [; set_global_window()]: the view always equals the membership spec"""
    from pyunicorn.core import Data, GeoGrid
    funcs = ["src/pyunicorn/core/data.py Data.__init__/set_window/set_global_window/observable/window",
             "src/pyunicorn/core/geo_grid.py GeoGrid.__init__/grid/grid_size/boundaries", "src/pyunicorn/core/grid.py Grid.__init__"]
    t, lat, lon, obs, hyps = build_inputs(T, N)
    ws = []
    for k in range(seq):
        w, h = sym_window(f"w{k}")
        ws.append(w)
        hyps += h

    def harness(ex):
        out = []
        with pe.patched(mods()):
            grid = GeoGrid(t, lat, lon, 3)

            def empty_ok(tm, sm):
                """an empty selection is rejected by the library with a ValueError (min of an empty axis)"""
                some_t = any(decided(ex, c) for c in tm)
                some_s = any(decided(ex, c) for c in sm)
                return [("exception-on-nonempty-window", bool(some_t and some_s))]
            tm, sm = member_spec(t, lat, lon, ws[0])
            try:
                d = Data(obs, grid, window=ws[0], silence_level=3)
            except ValueError:
                return out + empty_ok(tm, sm)
            out += [("init:" + l, b) for l, b in view_bad(d, t, lat, lon, obs, tm, sm)]
            for k in range(1, seq):
                tm, sm = member_spec(t, lat, lon, ws[k])
                try:
                    d.set_window(ws[k])
                except ValueError:
                    return out + empty_ok(tm, sm)
                out += [(f"set_window#{k}:" + l, b) for l, b in view_bad(d, t, lat, lon, obs, tm, sm)]
            d.set_global_window()
            out += [("global:" + l, b) for l, b in view_bad(d, t, lat, lon, obs, [True] * T, [True] * N)]
        return out

    def wit(m, lab):
        ev = lambda x: sx.model_value(m, x.v)
        return {"kind": "window", "t": [ev(x) for x in t], "lat": [ev(x) for x in lat], "lon": [ev(x) for x in lon],
                "obs": [[ev(obs[i, j]) for j in range(N)] for i in range(T)], "windows": [{k: ev(v) for k, v in w.items()} for w in ws],
                "label": lab}
    return finish(name, hyps, harness, funcs, f"T={T}, N={N}, {seq} window(s) then the global window; all symbolic",
                  "C13|Data|window", wit)


def ob_anomaly(name, T, N, cycle, anomalies_flag, windowed):
    """ClimateData: phase means / anomalies per phase; with a window applied the derived series match the windowed observable"""
    from pyunicorn.core import GeoGrid
    from pyunicorn.climate import ClimateData
    funcs = ["src/pyunicorn/climate/climate_data.py ClimateData.__init__/phase_mean/anomaly/phase_indices/set_window"]
    t, lat, lon, obs, hyps = build_inputs(T, N)
    w = None
    if windowed:
        # concrete-shape window: drop the last time stamp and the last grid point (bounds symbolic but ordered so)
        w, h = sym_window("w")
        hyps += h
        hyps += [w["time_min"].v <= t[0].v, w["time_max"].v >= t[T - 2].v, w["time_max"].v < t[T - 1].v, w["time_min"].v < w["time_max"].v]
        hyps += [w["lat_min"].v < w["lat_max"].v, w["lon_min"].v < w["lon_max"].v]
        for j in range(N - 1):
            hyps += [lat[j].v >= w["lat_min"].v, lat[j].v <= w["lat_max"].v, lon[j].v >= w["lon_min"].v, lon[j].v <= w["lon_max"].v]
        hyps += [lat[N - 1].v > w["lat_max"].v]
    Tw, Nw = (T - 1, N - 1) if windowed else (T, N)

    def view(cd, Tw_, Nw_, tag):
        out = []
        O = np.asarray(cd.observable(), dtype=object)
        if O.shape != (Tw_, Nw_):
            return [(tag + "observable-shape", True)]
        an = np.asarray(cd.anomaly(), dtype=object)
        if an.shape != O.shape:
            return [(tag + "anomaly-shape-differs-from-observable", True)]
        if anomalies_flag:
            for i in range(Tw_):
                for j in range(Nw_):
                    out.append((tag + "anomaly-is-the-windowed-observable", ne(pe._num(an[i, j]), pe._num(O[i, j]))))
            return out
        pm = np.asarray(cd.phase_mean(), dtype=object)
        if pm.shape != (cycle, Nw_):
            return [(tag + "phase_mean-shape", True)]
        for ph in range(cycle):
            idx = list(range(ph, Tw_, cycle))
            for j in range(Nw_):
                if idx:
                    out.append((tag + "anomaly-zero-mean-per-phase", ne(sx.total(pe._num(an[i, j]) for i in idx), 0)))
                    for i in idx:
                        out.append((tag + "anomaly+phase_mean=observable", ne(sx.add(pe._num(an[i, j]), pe._num(pm[ph, j])), pe._num(O[i, j]))))
        pi = np.asarray(cd.phase_indices())
        years = Tw_ // cycle
        if pi.shape != (cycle, years):
            out.append((tag + "phase_indices-shape", True))
        else:
            for ph in range(cycle):
                for yk in range(years):
                    out.append((tag + "phase_indices", int(pi[ph, yk]) != ph + yk * cycle))
        return out

    def harness(ex):
        with pe.patched(mods()):
            grid = GeoGrid(t, lat, lon, 3)
            if windowed == "sequence":
                # global view, then the window, then the global view again: every derived series follows each change
                cd = ClimateData(obs, grid, time_cycle=cycle, anomalies=anomalies_flag, window=None, silence_level=3)
                out = view(cd, T, N, "global view: ")
                cd.set_window(w)
                out += view(cd, Tw, Nw, "after set_window: ")
                cd.set_global_window()
                out += view(cd, T, N, "after set_global_window: ")
                return out
            cd = ClimateData(obs, grid, time_cycle=cycle, anomalies=anomalies_flag, window=w, silence_level=3)
            return view(cd, Tw, Nw, "")

    def wit(m, lab):
        ev = lambda x: sx.model_value(m, x.v)
        return {"kind": "anomaly", "t": [ev(x) for x in t], "lat": [ev(x) for x in lat], "lon": [ev(x) for x in lon],
                "obs": [[ev(obs[i, j]) for j in range(N)] for i in range(T)], "cycle": cycle, "anomalies": anomalies_flag,
                "window": {k: ev(v) for k, v in w.items()} if w else None, "label": lab, "sequence": windowed == "sequence"}
    return finish(name, hyps, harness, funcs,
                  f"T={T}, N={N}, cycle={cycle}, anomalies={anomalies_flag}, " + ("global view -> window dropping the last sample and node -> global view"
                                                                                        if windowed == "sequence" else ("window dropping the last sample and node" if windowed else "global window")),
                  "C13|ClimateData|anomaly", wit, max_paths=400)


def ob_float32_axis(name):
    """IEEE lemma: the axes are stored as float32 while the window bounds are compared as given (double).  Can a sample whose
    time stamp equals a window bound (closed window) be dropped?"""
    import ast as _ast
    import inspect
    from pyunicorn.core.grid import Grid
    src = inspect.getsource(Grid.__init__)
    casts32 = "astype('float32')" in src or 'astype("float32")' in src
    funcs = ["src/pyunicorn/core/grid.py Grid.__init__ (storage dtype of the axes)", "src/pyunicorn/core/data.py Data.set_window"]
    D, F = z3.FPSort(11, 53), z3.FPSort(8, 24)
    rm = z3.RNE()
    t = z3.FP("t", D)
    stored = z3.fpFPToFP(rm, z3.fpFPToFP(rm, t, F), D) if casts32 else t
    fin = [z3.Not(z3.fpIsNaN(t)), z3.Not(z3.fpIsInf(t)), z3.fpGT(t, z3.FPVal(2.0 ** -4, D)), z3.fpLT(t, z3.FPVal(16.0, D))]
    # window [0, t] with t a sample time: membership test stored <= t must hold
    v, m = Q.check(fin + [z3.Not(z3.fpLEQ(stored, t))], 120, tag=name)
    bound = "all double time stamps in (1/16, 16); axis storage dtype read from Grid.__init__"
    if v == "unsat":
        return result(name, HELD, functions=funcs, bound=bound, twin="sat")
    if v == "sat":
        import struct
        bv = z3.simplify(z3.fpToIEEEBV(m.eval(t, model_completion=True))).as_long()
        tv = struct.unpack("<d", struct.pack("<Q", bv))[0]
        return result(name, VIOLATED, functions=funcs, bound=bound, twin="sat", signature="C13|Data.set_window|float32-axis-boundary-sample",
                      witness={"kind": "float32-axis", "t": tv})
    return result(name, INCONCLUSIVE, reason="solver unknown", functions=funcs, bound=bound)


def prepare(tier):
    return {"validated": 0, "validation": []}


def obligations(tier):
    th = tier == "thorough"
    obs = []
    obs.append((ob_window, dict(name="C13|Data|window|T=2,N=2,seq=1", T=2, N=2, seq=1), 2400))
    obs.append((ob_window, dict(name="C13|Data|window|T=3,N=1,seq=1", T=3, N=1, seq=1), 2400))
    obs.append((ob_window, dict(name="C13|Data|window|T=2,N=1,seq=2", T=2, N=1, seq=2), 2400))
    if th:
        obs.append((ob_window, dict(name="C13|Data|window|T=3,N=2,seq=1", T=3, N=2, seq=1), 6000))
        obs.append((ob_window, dict(name="C13|Data|window|T=2,N=2,seq=2", T=2, N=2, seq=2), 6000))
    for (T, cycle) in ((3, 1), (4, 2), (5, 2), (5, 3)) + (((7, 3), (7, 4)) if th else ()):
        for flag in (False, True):
            obs.append((ob_anomaly, dict(name=f"C13|ClimateData|anomaly|T={T},cycle={cycle},anomalies={flag}|global", T=T, N=2, cycle=cycle,
                                         anomalies_flag=flag, windowed=False), 1200))
            obs.append((ob_anomaly, dict(name=f"C13|ClimateData|anomaly|T={T},cycle={cycle},anomalies={flag}|windowed", T=T, N=2, cycle=cycle,
                                         anomalies_flag=flag, windowed=True), 1200))
            if (T, cycle) in ((4, 2), (5, 3), (7, 3)):
                obs.append((ob_anomaly, dict(name=f"C13|ClimateData|anomaly|T={T},cycle={cycle},anomalies={flag}|global-window-global", T=T, N=2,
                                             cycle=cycle, anomalies_flag=flag, windowed="sequence"), 1800))
    return obs


def replay(w):
    from pyunicorn.core import Data, GeoGrid
    from pyunicorn.climate import ClimateData
    f = core.to_float
    if w["kind"] == "float32-axis":
        t = float(f(w["t"]))
        times = np.array([0.0, t, 2 * t + 1])
        grid = GeoGrid(times, np.array([0.0, 10.0]), np.array([0.0, 10.0]), 3)
        obs = np.arange(6, dtype=float).reshape(3, 2)
        d = Data(obs, grid, window={"time_min": 0.0, "time_max": t, "lat_min": 0., "lat_max": 0., "lon_min": 0., "lon_max": 0.}, silence_level=3)
        got = d.observable().shape[0]
        return got != 2, f"time stamps {times.tolist()}, closed window [0, {t!r}]: {got} samples selected, 2 lie inside the window"
    t, lat, lon = (np.array(f(w[k]), dtype=float) for k in ("t", "lat", "lon"))
    obs = np.array(f(w["obs"]), dtype=float)
    grid = GeoGrid(t, lat, lon, 3)

    def members(win):
        tm = np.ones(len(t), bool) if win["time_min"] == win["time_max"] else (t >= win["time_min"]) & (t <= win["time_max"])
        if win["lat_min"] == win["lat_max"] or win["lon_min"] == win["lon_max"]:
            sm = np.ones(len(lat), bool)
        else:
            sm = (lat >= win["lat_min"]) & (lat <= win["lat_max"]) & (lon >= win["lon_min"]) & (lon <= win["lon_max"])
        return tm, sm
    if w["kind"] == "window":
        wins = [{k: float(v) for k, v in f(x).items()} for x in w["windows"]]
        d = Data(obs, grid, window=wins[0], silence_level=3)
        probs = []

        def chk(tag, win):
            tm, sm = members(win) if win else (np.ones(len(t), bool), np.ones(len(lat), bool))
            ref = obs[tm][:, sm]
            O = d.observable()
            if O.shape != ref.shape or not np.allclose(O, ref):
                probs.append(f"{tag}: observable {O.tolist()} expected {ref.tolist()}")
            g = d.grid.grid()
            if len(g["time"]) != tm.sum() or len(g["lat"]) != sm.sum() or not np.allclose(g["time"], t[tm], rtol=1e-6):
                probs.append(f"{tag}: grid time {g['time'].tolist()} lat {g['lat'].tolist()}")
        chk("init", wins[0])
        for k in range(1, len(wins)):
            d.set_window(wins[k])
            chk(f"set_window#{k}", wins[k])
        d.set_global_window()
        chk("global", None)
        return bool(probs), f"t={t.tolist()} lat={lat.tolist()} lon={lon.tolist()} windows={wins}: " + "; ".join(probs[:3])
    if w["kind"] == "anomaly":
        win = {k: float(v) for k, v in f(w["window"]).items()} if w.get("window") else None

        def view_probs(cd, tag):
            O = cd.observable()
            an = cd.anomaly()
            probs = []
            if an.shape != O.shape:
                probs.append(f"{tag}anomaly() has shape {an.shape}, observable() {O.shape}")
            elif w["anomalies"]:
                if not np.allclose(an, O):
                    probs.append(f"{tag}anomaly() differs from the windowed observable although anomalies=True")
            else:
                pm = cd.phase_mean()
                c = w["cycle"]
                if pm.shape != (c, O.shape[1]):
                    probs.append(f"{tag}phase_mean() has shape {pm.shape} for an observable of shape {O.shape}")
                    return probs
                for ph in range(c):
                    if len(range(ph, O.shape[0], c)) and not np.allclose(an[ph::c].sum(axis=0), 0, atol=1e-9):
                        probs.append(f"{tag}phase {ph}: anomaly mean not zero")
                    if not np.allclose(an[ph::c] + pm[ph], O[ph::c]):
                        probs.append(f"{tag}phase {ph}: anomaly + phase mean != observable")
            return probs
        if w.get("sequence"):
            cd = ClimateData(obs, grid, time_cycle=w["cycle"], anomalies=w["anomalies"], window=None, silence_level=3)
            probs = view_probs(cd, "global view: ")
            cd.set_window(win)
            probs += view_probs(cd, "after set_window: ")
            cd.set_global_window()
            probs += view_probs(cd, "after set_global_window: ")
        else:
            cd = ClimateData(obs, grid, time_cycle=w["cycle"], anomalies=w["anomalies"], window=win, silence_level=3)
            probs = view_probs(cd, "")
        return bool(probs), f"ClimateData(T={len(t)}, N={len(lat)}, cycle={w['cycle']}, anomalies={w['anomalies']}, window={win}): " + "; ".join(probs[:3])
    return False, "unknown witness kind"
