"""C15 — surrogates preserve exactly what each method promises (Engine K for the twin kernels, Engine P for Surrogates)."""
import itertools

import numpy as np
import z3

from .. import core, kern, kcheck, pe, pnet, sx
from ..core import HELD, INCONCLUSIVE, VIOLATED, Q, result
from ..kcheck import decide, mv, mv_arr
from ..kern import Arr, PList, Run
from ..pe import SC, SV, Explorer, SymNd
from ..sx import add, and_, eq, ge, gt, ite, le, lt, mul, ne, not_, or_, sub

PROP = "C15"
TS = "timeseries"
META = {
    "bounds": "twin search: all symmetric recurrence matrices n<=5 (6 thorough), min_dist 0..2; twin walk: N<=4 states, every twin "
              "structure given as symbolic lists of fixed lengths, all random draws symbolic; Surrogates methods: N<=2 series x "
              "n_time=3 (4 thorough), one and two calls on the same object",
    "assumptions": ["RNG = nondeterministic stubs (shuffle: arbitrary permutation, uniform/randn: arbitrary reals in range)",
                    "numpy.fft is an environment stub: rfft returns an arbitrary complex spectrum, irfft an arbitrary real array; "
                    "decided is that the array handed to irfft has the moduli of the rfft output at every frequency (so the guarantee "
                    "holds for any FFT pair with irfft(rfft(x)) = x) and that outputs built by ranking are row-wise permutations",
                    "exact real arithmetic"],
    "outside": ["statistical quality of surrogates", "the FFT itself", "termination of the restart rejection loop of the twin walk"],
}


# ------------------------------------------------------------------------------------------------ twins (K)
def ob_twins_r(name, n, min_dist):
    """_twins_r: twins = exactly the pairs with j - k > min_dist, identical rows of R, equal and non-trivial neighbour counts"""
    mod = kern.module(TS)
    fn = "_twins_r"
    R, bits = kern.sym_adj(n, "r", diag=1)
    nR = Arr((n,), [sx.total(R.get(i, j) for j in range(n)) for i in range(n)], "int32")
    twins = PList([])
    run = Run(mod, loop_bound=n + 1, split={"l"})
    run.call(fn, [min_dist, n, R, nR, twins])
    bad = [not_(run.ok())]
    # twins is a list of n (+1, the kernel appends one extra) guarded lists
    lists = twins.values()
    for j in range(n):
        for k in range(n):
            same = and_(*[eq(R.get(j, l), R.get(k, l)) for l in range(n)])
            hi, lo = max(j, k), min(j, k)
            spec = and_(hi - lo > min_dist, same, ne(nR.data[j], 1)) if j != k else False
            member = or_(*[and_(g, eq(v, k)) for g, v in lists[j].items]) if j < len(lists) else False
            bad.append(ne(member, spec))

    def wit(m):
        return {"kind": "twins_r", "R": mv_arr(m, R), "min_dist": min_dist}
    return decide(name, run.assumptions, bad, [mod.func_info(fn)], f"all symmetric unit-diagonal R n={n}, min_dist={min_dist}",
                  "C15|_twins_r|twin-definition", wit, timeout=600)


def ob_twins_s(name, N, n_time, min_dist):
    """Surrogates.twins (kernel _twins_s called with the arrays the wrapper allocates): for EVERY series of the data set the twins
    are the pairs with |j-k| > min_dist, identical recurrence rows (supremum distance < threshold) and a non-trivial neighbourhood"""
    mod = kern.module(TS)
    fn = "_twins_s"
    import inspect
    from pyunicorn.timeseries.surrogates import Surrogates
    # how the wrapper allocates the scratch buffers decides their initial contents (np.empty -> arbitrary)
    src = inspect.getsource(Surrogates.twins.__wrapped__ if hasattr(Surrogates.twins, "__wrapped__") else Surrogates.twins)
    import re
    mR = re.search(r"R\s*=\s*np\.(\w+)\(", src)
    mn = re.search(r"nR\s*=\s*np\.(\w+)\(", src)
    dim = 1
    emb = kern.sym_real_arr((N, n_time, dim), "e")
    thr = z3.Real("thr")
    hyps = [thr > 0]

    def initial(kind, shape, fill):
        if kind == "empty":
            return Arr(shape, [z3.Int(f"junk{fill}_{i}") for i in range(int(np.prod(shape)))], "int32")
        if kind == "ones":
            return Arr.full(shape, 1, "int32")
        if kind == "zeros":
            return Arr.full(shape, 0, "int32")
        if kind == "full":
            return Arr.full(shape, n_time, "int32")
        return None
    R = initial(mR.group(1) if mR else "empty", (n_time, n_time), "R")
    nR = initial(mn.group(1) if mn else "empty", (n_time,), "n")
    if R is None or nR is None:
        return result(name, INCONCLUSIVE, reason="unrecognised allocation of the scratch buffers in Surrogates.twins", functions=[])
    twins = PList([])
    run = Run(mod, loop_bound=n_time + 1, split={"l"}, hyps=hyps)
    run.call(fn, [N, n_time, dim, thr, min_dist, emb, R, nR, twins])
    bad = [not_(run.ok())]
    lists = twins.values()
    if len(lists) != N:
        bad.append(True)
    for i in range(min(N, len(lists))):
        rec = {(j, k): not_(gt(sx.abs_(sub(emb.get(i, j, 0), emb.get(i, k, 0))), thr)) for j in range(n_time) for k in range(n_time)}
        cnt = [sx.total(ite(rec[(j, l)], 1, 0) for l in range(n_time)) for j in range(n_time)]
        per = lists[i].values()
        for j in range(n_time):
            for k in range(n_time):
                same = and_(*[eq(ite(rec[(j, l)], 1, 0), ite(rec[(k, l)], 1, 0)) for l in range(n_time)])
                spec = and_(abs(j - k) > min_dist, same, ne(cnt[j], 1)) if j != k else False
                member = or_(*[and_(g, eq(v, k)) for g, v in per[j].items]) if j < len(per) else False
                bad.append(ne(member, spec))

    def wit(m):
        return {"kind": "twins_s", "emb": mv_arr(m, emb), "thr": mv(m, thr), "min_dist": min_dist}
    return decide(name, hyps + run.assumptions, bad, [mod.func_info(fn), "src/pyunicorn/timeseries/surrogates.py Surrogates.twins"],
                  f"{N} series x {n_time} states (dim 1), real data and threshold, min_dist={min_dist}; scratch buffers initialised as the wrapper does",
                  "C15|_twins_s|twin-definition-per-series", wit, timeout=900)


def ob_twin_walk(name, n, lens):
    """_twin_surrogates_s: every surrogate state is an original state; each is followed by the successor of itself or of one of its
    twins whenever k+1 < N (a restart happens only at the end of the series)"""
    mod = kern.module(TS)
    fn = "_twin_surrogates_s"
    x = kern.sym_real_arr((1, n), "x")
    hyps = []
    tw = []
    for k in range(n):
        items = []
        for a in range(lens[k]):
            v = z3.Int(f"tw_{k}_{a}")
            hyps += [v >= 0, v < n, v != k]
            items.append(v)
        tw.append(PList(items))
    twins = PList([PList(tw)])
    run = Run(mod, loop_bound=n + 1, hyps=hyps)
    out = run.call(fn, [1, n, twins, x])
    hyps2 = hyps + run.assumptions
    bad = [not_(run.ok())]
    # distinct original values make positions identifiable
    for i in range(n):
        for j in range(i + 1, n):
            hyps2.append(x.get(0, i) != x.get(0, j))
    for j in range(n):
        v = out.get(0, j)
        bad.append(True if v is kern.UNDEF else and_(*[ne(v, x.get(0, k)) for k in range(n)]))
    for j in range(n - 1):
        a, b = out.get(0, j), out.get(0, j + 1)
        if a is kern.UNDEF or b is kern.UNDEF:
            continue
        # if a = x_k then b = x_{k+1} or x_{m+1} for a twin m of k (when those successors exist), or any state after a restart
        conds = []
        for k in range(n):
            succ_ok = False
            cand = [k] + [t for t in tw[k].values()]
            opts = []
            for c in cand:
                # successor index c+1 must be < n, else restart (any state allowed)
                for s_ in range(n):
                    opts.append(and_(eq(c, s_ - 1) if sx.is_sym(c) else (c == s_ - 1), eq(b, x.get(0, s_))))
                opts.append(eq(c, n - 1) if sx.is_sym(c) else (c == n - 1))       # restart allowed
            conds.append(sx.implies(eq(a, x.get(0, k)), or_(*opts)))
        bad.append(not_(and_(*conds)))

    def wit(m):
        return {"kind": "twin_walk", "x": mv_arr(m, x), "twins": [[int(mv(m, t)) for t in tw[k].values()] for k in range(n)]}
    return decide(name, hyps2, bad, [mod.func_info(fn)], f"N={n} states, twin list lengths {lens}, symbolic twins and draws",
                  "C15|_twin_surrogates_s|successor-rule", wit, timeout=600)


# ------------------------------------------------------------------------------------------------ Surrogates (P)
class RandomStub:
    """numpy.random replaced by nondeterministic stubs"""

    def __init__(self):
        self.k = 0

    def shuffle(self, a):
        ex = pe.current()
        n = len(a)
        vals = [pe._num(v) for v in a]
        sig = [ex.fresh("int", "perm") for _ in range(n)]
        cons = [z3.And(s >= 0, s < n) for s in sig] + ([z3.Distinct(*sig)] if n > 1 else [])
        for c in cons:
            ex.extra.append(c)
            ex.solver.add(c)
        for i in range(n):
            out = vals[n - 1]
            for k in range(n - 2, -1, -1):
                out = sx.ite(sig[i] == k, vals[k], out)
            a[i] = pe.wrap(out)

    def uniform(self, low=0.0, high=1.0, size=None):
        ex = pe.current()
        shape = size if isinstance(size, tuple) else (size,)
        out = np.empty(shape, dtype=object)
        flat = out.reshape(-1)
        for i in range(flat.size):
            flat[i] = SV(ex.fresh("real", "uni"))
        return SymNd(out)

    def randn(self, *shape):
        ex = pe.current()
        out = np.empty(shape, dtype=object)
        flat = out.reshape(-1)
        for i in range(flat.size):
            flat[i] = SV(ex.fresh("real", "gauss"))
        return SymNd(out)

    def seed(self, *a):
        pass


def sur_mods():
    from pyunicorn.timeseries import surrogates
    return [surrogates]


def sur_patches():
    K = pnet.kernel_shim
    return {"pyunicorn.timeseries.surrogates": {"random": RandomStub()}}


def sym_data(N, T):
    d = np.empty((N, T), dtype=object)
    for i in range(N):
        for j in range(T):
            d[i, j] = SV(z3.Real(f"d_{i}_{j}"))
    return d


def perm_bad(out_row, in_row):
    """'out_row is not a permutation of in_row' by counting: every value occurs equally often in both"""
    a = [pe._num(v) for v in out_row]
    b = [pe._num(v) for v in in_row]
    if len(a) != len(b):
        return True
    conds = []
    for v in b + a:
        ca = sx.total(ite(eq(u, v), 1, 0) for u in a)
        cb = sx.total(ite(eq(u, v), 1, 0) for u in b)
        conds.append(ne(ca, cb))
    return or_(*conds)


def ob_surrogates(name, method, N, T, calls):
    from pyunicorn.timeseries import Surrogates
    funcs = [f"src/pyunicorn/timeseries/surrogates.py Surrogates.{method}", "src/pyunicorn/timeseries/surrogates.py Surrogates.original_data_fft"]
    data = sym_data(N, T)

    def harness(ex):
        out = []
        with pe.patched(sur_mods(), sur_patches()):
            orig = SymNd(data.copy())
            s = Surrogates(SymNd(data.copy()), silence_level=3)
            for c in range(calls):
                if method == "white_noise_surrogates":
                    r = np.asarray(s.white_noise_surrogates(), dtype=object)
                    for i in range(N):
                        out.append((f"call{c}:row{i}-permutation", perm_bad(r[i], orig[i])))
                elif method == "correlated_noise_surrogates":
                    fft0 = np.asarray(s.original_data_fft(), dtype=object)
                    snap = [[(x.re, x.im) for x in row] for row in fft0]
                    s.correlated_noise_surrogates()
                    spec_in = pe.FFT.last_irfft_input
                    for i in range(N):
                        for k in range(fft0.shape[1]):
                            z = spec_in[i, k]
                            out.append((f"call{c}:amplitude[{i},{k}]", ne(z.abs2(), add(mul(snap[i][k][0], snap[i][k][0]), mul(snap[i][k][1], snap[i][k][1])))))
                    fft1 = np.asarray(s.original_data_fft(), dtype=object)
                    for i in range(N):
                        for k in range(fft0.shape[1]):
                            out.append((f"call{c}:memoised-fft-unchanged", or_(ne(fft1[i, k].re, snap[i][k][0]), ne(fft1[i, k].im, snap[i][k][1]))))
                elif method in ("AAFT_surrogates", "refined_AAFT_surrogates"):
                    if method == "AAFT_surrogates":
                        r = np.asarray(s.AAFT_surrogates(), dtype=object)
                    else:
                        r = np.asarray(s.refined_AAFT_surrogates(1, output="true_amplitudes"), dtype=object)
                    for i in range(N):
                        out.append((f"call{c}:row{i}-permutation", perm_bad(r[i], orig[i])))
                cur = np.asarray(s.original_data, dtype=object)
                for i in range(N):
                    for j in range(T):
                        out.append((f"call{c}:original_data-unchanged", ne(pe._num(cur[i, j]), pe._num(orig[i, j]))))
        return [(l, b) for l, b in out if b is not False]

    def wit(m, lab):
        return {"kind": "surrogates", "method": method, "calls": calls, "label": lab,
                "data": [[sx.model_value(m, data[i, j].v) for j in range(T)] for i in range(N)] if m else None}
    from .C07 import run_paths
    return run_paths(name, [], harness, funcs, f"{N} series x {T} samples, {calls} call(s) on one object; RNG and FFT as stubs",
                     f"C15|Surrogates.{method}", wit, max_paths=3000)


def ob_twin_glue(name, N, T, calls):
    """Surrogates.twin_surrogates, called repeatedly on one object with different parameters: every call hands _twin_surrogates_s the twins
    that _twins_s computed for the delay embedding of the CURRENT original data with the REQUESTED (dimension, delay, threshold, min_dist)
    (the kernels themselves are decided separately; here they are recording stubs, the embedding kernel is executed by Engine K)"""
    from pyunicorn.timeseries import Surrogates
    funcs = ["src/pyunicorn/timeseries/surrogates.py Surrogates.twin_surrogates/twins/embedding.setter/embed_time_series_array/normalize_original_data",
             kern.module(TS).func_info("_embed_time_series_array")]
    data = sym_data(N, T)
    bound = f"{N} series x {T} samples, call sequence {calls} of (dimension, delay, threshold, min_dist[, normalise first]) on one object"
    log = {"twins": [], "walk": []}

    def twins_stub(N_, n_time, dim, thr, md, emb, R, nR, twins):
        token = ("twins#", len(log["twins"]))
        log["twins"].append({"token": token, "N": N_, "n_time": n_time, "dim": dim, "thr": pe._num(thr), "md": md,
                             "emb": [pe._num(x) for x in np.asarray(emb, dtype=object).ravel()], "shape": np.asarray(emb, dtype=object).shape})
        twins.append(token)

    def walk_stub(N_, n_time, twins, dat):
        log["walk"].append({"N": N_, "n_time": n_time, "twins": list(twins), "data": [pe._num(x) for x in np.asarray(dat, dtype=object).ravel()]})
        return pe.NP.zeros((N_, n_time))

    def harness(ex):
        out = []
        log["twins"].clear()
        log["walk"].clear()
        patch = {"pyunicorn.timeseries.surrogates": {"random": RandomStub(), "_twins_s": twins_stub, "_twin_surrogates_s": walk_stub,
                                                      "_embed_time_series_array": pnet.kernel_shim(TS, "_embed_time_series_array",
                                                                                                   [None, None, None, None, "float64", "float64"])}}
        pe.clear_caches(Surrogates)
        with pe.patched(sur_mods(), patch):
            s = Surrogates(SymNd(data.copy()), silence_level=3)
            for c, call in enumerate(calls):
                dim, delay, thr, md = call[:4]
                if len(call) > 4 and call[4]:
                    s.normalize_original_data()
                cur = np.asarray(s.original_data, dtype=object)
                s.twin_surrogates(dim, delay, thr, md)
                if len(log["walk"]) != c + 1:
                    out.append((f"call {c}: _twin_surrogates_s not called once", True))
                    continue
                wk = log["walk"][-1]
                n_emb = T - (dim - 1) * delay
                if wk["n_time"] != n_emb or wk["N"] != N:
                    out.append((f"call {c}: surrogate length handed to the kernel", True))
                toks = [t for t in wk["twins"] if isinstance(t, tuple) and t and t[0] == "twins#"]
                if len(toks) != 1:
                    out.append((f"call {c}: twins list does not come from one _twins_s call", True))
                    continue
                rec = log["twins"][toks[0][1]]
                # the twins in use must have been computed for the requested parameters and the embedding of the current data
                if (rec["dim"], rec["md"], rec["n_time"], rec["N"]) != (dim, md, n_emb, N) or rec["shape"] != (N, n_emb, dim):
                    out.append((f"call {c}: twins computed for other parameters (dimension/min_dist/length)", True))
                    continue
                out.append((f"call {c}: twins computed for another threshold", ne(rec["thr"], thr)))
                spec = [pe._num(cur[i, k + j * delay]) for i in range(N) for k in range(n_emb) for j in range(dim)]
                out.append((f"call {c}: twins computed for an embedding that is not the delay embedding of the current data",
                            or_(*[ne(a, b) for a, b in zip(rec["emb"], spec)])))
        return [(l, b) for l, b in out if b is not False]

    def wit(m, lab):
        return {"kind": "twin_glue", "calls": [list(c) for c in calls], "label": lab,
                "data": [[sx.model_value(m, data[i, j].v) for j in range(T)] for i in range(N)] if m else None}
    from .C07 import run_paths
    return run_paths(name, [], harness, funcs, bound, "C15|Surrogates.twin_surrogates|glue", wit, max_paths=200)


def prepare(tier):
    import numpy as np
    notes = []
    ok = 0

    def mk(rng, t):
        n = int(rng.integers(2, 8))
        R = (rng.random((n, n)) < 0.5).astype("int8")
        R = np.maximum(R, R.T)
        np.fill_diagonal(R, 1)
        if t % 2 == 0:
            R[1] = R[0]
            R[:, 1] = R[:, 0]
        nR = R.sum(axis=0).astype("int32")
        return [0, n, R, nR, []], [0, n, kern.from_numpy(R), kern.from_numpy(nR), PList([])]

    def cmp_(cres, cargs, ires, iargs):
        got = [sorted(int(v) for v in l.values()) for l in iargs[4].values()]
        ref = [sorted(l) for l in cargs[4]]
        return got == ref
    ok += kcheck.validate_kernel(TS, "_twins_r", mk, 6, cmp_, notes)
    return {"validated": ok, "validation": notes, "source": {"timeseries/_ext/numerics.pyx": kern.module(TS).sha}}


def obligations(tier):
    th = tier == "thorough"
    obs = []
    for n in ((3, 4, 5) if not th else (3, 4, 5, 6)):
        for md in (0, 1, 2):
            if md < n - 1:
                obs.append((ob_twins_r, dict(name=f"C15|_twins_r|n={n},min_dist={md}", n=n, min_dist=md), 1500))
    for (N_, T_, md) in ((1, 3, 0), (2, 3, 0), (2, 4, 1)) + (((3, 4, 0),) if th else ()):
        obs.append((ob_twins_s, dict(name=f"C15|_twins_s|{N_} series x {T_}|min_dist={md}", N=N_, n_time=T_, min_dist=md), 1800))
    for lens in [[0, 0, 0], [1, 0, 1], [1, 1, 1, 0], [2, 0, 1, 0]] + ([[1, 1, 1, 1], [2, 1, 0, 2]] if th else []):
        obs.append((ob_twin_walk, dict(name=f"C15|_twin_surrogates_s|walk|lens={lens}", n=len(lens), lens=lens), 1500))
    for method in ("white_noise_surrogates", "correlated_noise_surrogates", "AAFT_surrogates", "refined_AAFT_surrogates"):
        for calls in ((1, 2) if method in ("white_noise_surrogates", "correlated_noise_surrogates") or th else (1,)):
            N, T = (2, 3) if method in ("white_noise_surrogates", "correlated_noise_surrogates") else (1, 3)
            obs.append((ob_surrogates, dict(name=f"C15|Surrogates.{method}|calls={calls}", method=method, N=N, T=T, calls=calls), 2400))
    obs.append((ob_rp_twins, dict(name="C15|RecurrencePlot.twin_surrogates|applicable"), 600))
    seqs = [[(2, 2, 1, 0), (3, 1, 1, 0)], [(1, 1, 1, 0), (2, 1, 1, 0), (1, 1, 1, 0)], [(2, 1, 1, 0), (2, 1, 2, 0), (2, 1, 2, 1)],
            [(2, 1, 1, 0), (2, 1, 1, 0, True)]]
    for k, seq in enumerate(seqs):
        obs.append((ob_twin_glue, dict(name=f"C15|Surrogates.twin_surrogates|glue|sequence#{k}", N=1, T=5, calls=seq), 1200))
    return obs


def ob_rp_twins(name):
    """RecurrencePlot.twins / twin_surrogates hand the kernels the arrays they declare (dtype / ndim contract):
    decided from the declared buffer types in the .pyx against what the Python wrapper constructs"""
    import ast
    import inspect
    from pyunicorn.timeseries.recurrence_plot import RecurrencePlot
    mod = kern.module(TS)
    funcs = [mod.func_info("_twins_r"), mod.func_info("_twin_surrogates_r"), "src/pyunicorn/timeseries/recurrence_plot.py RecurrencePlot.twins/twin_surrogates"]
    # declared buffer of _twin_surrogates_r's result and of _twins_r's nR argument
    probs = []
    node = mod.funcs["_twins_r"].node
    run = Run(mod)
    for an in node.args:
        if run.decl_name(an.declarator) == "nR":
            bt = an.base_type
            el = bt.positional_args[0].name if hasattr(bt, "positional_args") else None
            declared = mod.ctypedefs.get(el, el)
            import re
            src = inspect.getsource(RecurrencePlot.twins)
            passes_cast = bool(re.search(r"nR\s*=\s*to_cy\(", src) or re.search(r"to_cy\(\s*nR", src) or "astype" in src)
            if declared != "int64" and not passes_cast:
                probs.append(f"_twins_r declares nR as {declared} but RecurrencePlot.twins passes R.sum(axis=0) (int64) without a cast")
    # declared ndim of the result buffer of _twin_surrogates_r vs the shape tuple it is created with
    import re as _re
    ksrc = "\n".join(mod.lines[mod.funcs["_twin_surrogates_r"].node.pos[1] - 1: mod.funcs["_twin_surrogates_r"].node.pos[1] + 12])
    mm = _re.search(r"ndim=(\d)\] surrogates = np.empty\(\s*\(([^)]*)\)", ksrc)
    if mm and int(mm.group(1)) != len([x for x in mm.group(2).split(",") if x.strip()]):
        probs.append(f"_twin_surrogates_r declares its result with ndim={mm.group(1)} but allocates shape ({mm.group(2)})")
    if _re.search(r"random\.seed\(\s*datetime", ksrc):
        probs.append("_twin_surrogates_r seeds the RNG with a datetime object (TypeError on Python >= 3.11)")
    bad = bool(probs)
    if not bad:
        return result(name, HELD, functions=funcs, bound="declared buffer types vs constructed arguments (structural)", twin="sat")
    return result(name, VIOLATED, functions=funcs, bound="declared buffer types vs constructed arguments (structural)", twin="sat",
                  signature="C15|RecurrencePlot.twin_surrogates|raises-for-every-input", witness={"kind": "rp_twins", "why": probs})


# ------------------------------------------------------------------------------------------------ replay
def replay(w):
    import numpy as np
    if w.get("kind") == "twin_glue":
        import random
        from pyunicorn.timeseries import Surrogates
        rng = np.random.default_rng(5)
        if w.get("data"):
            base = np.array(core.to_float(w["data"]), dtype=float)
        else:
            base = None
        probs = []
        for attempt in range(6):
            # generic data with repeated states (so that twins exist); the witness' data first if the solver supplied some
            data = base if (attempt == 0 and base is not None) else np.round(rng.integers(0, 3, size=(1, 12)) + 1e-3 * rng.random((1, 12)), 6)
            if attempt == 0 and base is not None and len(set(np.round(base.ravel(), 9))) < 2:
                continue
            s = Surrogates(data.copy(), silence_level=3)
            normalised = False
            for c, call in enumerate(w["calls"]):
                dim, delay, thr, md = call[:4]
                if len(call) > 4 and call[4]:
                    s.normalize_original_data()
                    normalised = True
                random.seed(1)
                s.twin_surrogates(dim, delay, thr, md)
                used = [sorted(x) for x in s.twins(thr, md)[0]] if s.twins(thr, md) else []
                fresh = Surrogates(data.copy(), silence_level=3)
                if normalised:
                    fresh.normalize_original_data()
                fresh.embedding = fresh.embed_time_series_array(fresh.original_data, dim, delay)
                ref = [sorted(x) for x in fresh.twins(thr, md)[0]]
                if used != ref:
                    probs.append(f"call {c} {tuple(call)} on data {data.tolist()}: twins in use {used} but the twins of the requested embedding are {ref}")
                    break
            if probs:
                break
        return bool(probs), "; ".join(probs)
    import numpy as np
    from pyunicorn.timeseries import Surrogates, RecurrencePlot
    from pyunicorn.timeseries._ext import numerics as TSN
    f = core.to_float
    k = w["kind"]
    if k == "twins_r":
        R = np.array(w["R"], dtype="int8")
        n = len(R)
        nR = R.sum(axis=0).astype("int32")
        tw = []
        TSN._twins_r(w["min_dist"], n, R, nR, tw)
        ref = [[k_ for k_ in range(n) if k_ != j and abs(j - k_) > w["min_dist"] and (R[j] == R[k_]).all() and nR[j] != 1] for j in range(n)]
        got = [sorted(l) for l in tw[:n]]
        return got != ref, f"_twins_r(R={R.tolist()}, min_dist={w['min_dist']}) = {got}, definition {ref}"
    if k == "twins_s":
        emb = np.array(f(w["emb"]), dtype=float)
        thr = float(f(w["thr"]))
        N, T, _ = emb.shape
        s_ = Surrogates(np.zeros((N, T)), silence_level=3)
        s_.embedding = emb
        tw = s_.twins(thr, w["min_dist"])
        bad = False
        msg = ""
        for i in range(N):
            D = np.abs(emb[i, :, None, 0] - emb[i, None, :, 0])
            R = ~(D > np.float32(thr))
            cnt = R.sum(axis=1)
            ref = [[k_ for k_ in range(T) if k_ != j and abs(j - k_) > w["min_dist"] and (R[j] == R[k_]).all() and cnt[j] != 1] for j in range(T)]
            got = [sorted(l) for l in tw[i]]
            if got != ref:
                bad, msg = True, f"series {i}: twins {got} definition {ref}"
        return bad, f"embedding {emb[:, :, 0].tolist()} threshold {thr}: {msg}"
    if k == "twin_walk":
        import random as pyrandom
        x = np.array(f(w["x"]), dtype=float)
        n = x.shape[1]
        tw = [w["twins"]]
        bad = False
        msg = ""
        for seed in range(200):
            pyrandom.seed(seed)
            s = TSN._twin_surrogates_s(1, n, tw, x)[0]
            pos = [int(np.where(x[0] == v)[0][0]) if (x[0] == v).any() else None for v in s]
            if None in pos:
                bad, msg = True, f"surrogate {s.tolist()} contains a non-original state"
                break
            for a, b in zip(pos[:-1], pos[1:]):
                cand = [a] + list(tw[0][a])
                allowed = {c + 1 for c in cand if c + 1 < n}
                restart = any(c + 1 >= n for c in cand)
                if b not in allowed and not restart:
                    bad, msg = True, f"state {a} followed by {b}; allowed successors {sorted(allowed)} (seed {seed})"
                    break
            if bad:
                break
        return bad, f"twins={tw[0]}: {msg}"
    if k == "rp_twins":
        ts = np.array([0.0, 1.0, 0.1, 1.1, 0.0, 1.0, 0.1, 1.1, 0.05, 1.0])
        rp = RecurrencePlot(ts, threshold=0.2, silence_level=3)
        try:
            rp.twin_surrogates(n_surrogates=1, min_dist=1)
            return False, "twin_surrogates ran"
        except Exception as e:  # noqa
            return True, f"RecurrencePlot.twin_surrogates raises {type(e).__name__}: {e}"
    if k == "surrogates":
        rng = np.random.default_rng(5)
        data = np.array(f(w["data"]), dtype=float) if w.get("data") else rng.random((2, 4))
        if np.ptp(data) == 0:
            # the FFT is an uninterpreted stub in the encoding, so the model leaves the data unconstrained: use generic data
            data = np.round(rng.random(data.shape) * 8) / 4 + np.arange(data.shape[1])
        data0 = data.copy()
        s = Surrogates(data.copy(), silence_level=3)
        lab = w["label"]
        meth = w["method"]
        probs = []
        for c in range(w["calls"]):
            fft0 = s.original_data_fft().copy()
            if meth == "white_noise_surrogates":
                r = s.white_noise_surrogates()
            elif meth == "correlated_noise_surrogates":
                r = s.correlated_noise_surrogates()
            elif meth == "AAFT_surrogates":
                r = s.AAFT_surrogates()
            else:
                r = s.refined_AAFT_surrogates(1)
            if "memoised-fft-unchanged" in lab and not np.allclose(s.original_data_fft(), fft0):
                probs.append(f"call {c}: original_data_fft() changed from {np.round(fft0, 3).tolist()} to {np.round(s.original_data_fft(), 3).tolist()}")
            if "permutation" in lab and not np.allclose(np.sort(r, axis=1), np.sort(data0, axis=1)):
                probs.append(f"call {c}: output rows are not permutations of the data")
            if "original_data-unchanged" in lab and not np.allclose(s.original_data, data0):
                probs.append(f"call {c}: original_data modified")
            if "amplitude" in lab:
                amp0 = np.abs(np.fft.rfft(data0, axis=1))
                amp1 = np.abs(np.fft.rfft(r, axis=1))
                T = data0.shape[1]
                ks = [k_ for k_ in range(1, amp0.shape[1]) if not (T % 2 == 0 and k_ == T // 2)]
                if not np.allclose(amp0[:, ks], amp1[:, ks], rtol=1e-6, atol=1e-9):
                    probs.append(f"call {c}: amplitude spectrum {amp1.tolist()} vs {amp0.tolist()}")
        return bool(probs), f"Surrogates.{meth} on {data0.tolist()}: " + "; ".join(probs[:2])
    return False, "unknown witness kind"
