"""C03 — network measures equal their published definitions (Engine K part; Engine P part in C03_py)."""
from .. import core, kern
from . import gk

PROP = "C03"
META = {
    "bounds": "cliquishness order 4 and 5: all graphs n<=6 (order 4: n=7 thorough); "
              "Newman chunk kernels: all graphs n<=4, real V; Python-level formulas: see C03_py obligations",
    "assumptions": ["exact real arithmetic; C integer widths erased (int16 degree / int32 products: separate width lemma)",
                    "degree argument = row sums of the adjacency (what Network.local_cliquishness passes)"],
    "outside": ["measures forwarded to igraph (local_clustering, transitivity, unweighted closeness, betweenness, coreness, ...)",
                "spectral centralities (ARPACK)"],
}


def prepare(tier):
    notes = []
    ok = gk.validate(notes, ("cliq", "newman"))
    out = {"validated": ok, "validation": notes, "source": {"core/_ext/numerics.pyx": kern.module("core").sha}}
    try:
        from . import C03_py
        extra = C03_py.prepare(tier)
        out["validated"] += extra.get("validated", 0)
        out["validation"] += extra.get("validation", [])
    except ImportError:
        pass
    return out


def obligations(tier):
    th = tier == "thorough"
    obs = []
    for n in (3, 4, 5):
        obs.append((gk.ob_cliquishness, dict(name=f"C03|cliquishness4|n={n}", prop=PROP, order=4, n=n), 900))
        obs.append((gk.ob_cliquishness, dict(name=f"C03|cliquishness5|n={n}", prop=PROP, order=5, n=n), 900))
    for i in range(6):
        obs.append((gk.ob_cliquishness, dict(name=f"C03|cliquishness4|n=6|node={i}", prop=PROP, order=4, n=6, nodes=[i]), 1200))
        obs.append((gk.ob_cliquishness, dict(name=f"C03|cliquishness5|n=6|node={i}", prop=PROP, order=5, n=6, nodes=[i]), 1500))
    if th:
        for i in range(7):
            obs.append((gk.ob_cliquishness, dict(name=f"C03|cliquishness4|n=7|node={i}", prop=PROP, order=4, n=7, nodes=[i]), 3000))
    for n in ((3, 4) if not th else (3, 4, 5)):
        obs.append((gk.ob_newman_chunks, dict(name=f"C03|_mpi_newman_betweenness|defining-sum|n={n}", prop=PROP, n=n, nsi=False), 1200))
    for n in (3, 4):          # n = 5 was tried in the thorough tier: rational functions of five weights, z3 unknown after 300-1800 s per group
        graphs = list(gk.all_graphs(n))
        step = 8
        for ci in range(0, len(graphs), step):
            obs.append((gk.ob_nsi_betw_definition, dict(name=f"C03|_nsi_betweenness|definition|n={n}|graphs#{ci // step}", prop=PROP, n=n,
                                                        graphs=graphs[ci:ci + step]), 1800))
    try:
        from . import C03_py
        obs.extend(C03_py.obligations(tier))
    except ImportError:
        pass
    return obs


def replay(w):
    if w.get("kind", "").startswith("py:"):
        from . import C03_py
        return C03_py.replay(w)
    return gk.replay(w)
