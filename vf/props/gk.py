"""Graph-kernel obligations over core/_ext/numerics.pyx shared by C03, C04, C11, C19 (Engine K)."""
import itertools
from fractions import Fraction
import math

import z3

from .. import core, kern, kcheck, sx
from ..kcheck import decide, mv, mv_arr
from ..kern import Arr, Run
from ..sx import add, and_, div, eq, ge, implies, ite, mul, ne, not_, or_, sub

CO = "core"


def adj_deg(n, prefix="a", diag=0):
    A, bits = kern.sym_adj(n, prefix, diag=diag)
    deg = Arr((n,), [sx.total(A.get(i, j) for j in range(n) if j != i) for i in range(n)], "int16")
    return A, bits, deg


def permute_arr(A, perm):
    """B[perm[i], perm[j]] = A[i, j]"""
    n = A.shape[0]
    B = Arr.full(A.shape, 0, A.dtype)
    if A.ndim == 2:
        for i in range(n):
            for j in range(n):
                B.set((perm[i], perm[j]), A.get(i, j))
    else:
        for i in range(n):
            B.set((perm[i],), A.get(i))
    return B


# ----------------------------------------------------------------------------------- cliquishness
def clique_spec(A, deg, n, order, i):
    """expected local cliquishness of node i as a case split over the degree value (keeps it linear)"""
    others = [j for j in range(n) if j != i]
    cnt = 0
    for S in itertools.combinations(others, order - 1):
        c = and_(*[eq(A.get(i, j), 1) for j in S], *[eq(A.get(p, q), 1) for p, q in itertools.combinations(S, 2)])
        cnt = add(cnt, ite(c, 1, 0))
    cases = []
    for dv in range(n):
        exp = 0 if dv < order - 1 else div(cnt, math.comb(dv, order - 1))
        cases.append((eq(deg.data[i], dv), exp))
    return cases


def ob_cliquishness(name, prop, order, n, nodes=None):
    mod = kern.module(CO)
    fn = f"_local_cliquishness_{order}thorder"
    A, bits, deg = adj_deg(n)
    run = Run(mod, loop_bound=n, split=False)
    out = run.call(fn, [n, A, deg])
    bad = [not_(run.ok())]
    for i in (range(n) if nodes is None else nodes):
        ok = True
        for c, exp in clique_spec(A, deg, n, order, i):
            ok = and_(ok, implies(c, eq(out.data[i], exp)))
        bad.append(not_(ok))

    def wit(m):
        return {"kind": "cliquishness", "order": order, "A": mv_arr(m, A)}
    return decide(name, run.assumptions, bad, [mod.func_info(fn)],
                  f"all undirected graphs n={n}" + (f", nodes {list(nodes)}" if nodes is not None else ""),
                  f"{prop}|{fn}|clique-count-definition", wit, timeout=900)


def ob_cliquishness_perm(name, prop, order, n, k):
    """adjacent transposition (k, k+1) of the node numbering permutes the result"""
    mod = kern.module(CO)
    fn = f"_local_cliquishness_{order}thorder"
    A, bits, deg = adj_deg(n)
    perm = list(range(n))
    perm[k], perm[k + 1] = perm[k + 1], perm[k]
    B, degB = permute_arr(A, perm), permute_arr(deg, perm)
    r1 = Run(mod, loop_bound=n, split=False, prefix="k1")
    o1 = r1.call(fn, [n, A, deg])
    r2 = Run(mod, loop_bound=n, split=False, prefix="k2")
    o2 = r2.call(fn, [n, B, degB])
    bad = [or_(not_(r1.ok()), not_(r2.ok()))] + [ne(o1.data[i], o2.data[perm[i]]) for i in range(n)]

    def wit(m):
        return {"kind": "cliquishness-perm", "order": order, "A": mv_arr(m, A), "perm": perm}
    return decide(name, r1.assumptions + r2.assumptions, bad, [mod.func_info(fn)],
                  f"all undirected graphs n={n}, transposition ({k},{k + 1})",
                  f"{prop}|{fn}|renumbering", wit, timeout=900)


# ----------------------------------------------------------------------------------- cross kernels
def disjoint_pairs(n, ordered_lists=False, cap=None, seed=0):
    """all ordered pairs of disjoint non-empty node lists over range(n) (ascending order)"""
    out = []
    for lab in itertools.product((0, 1, 2), repeat=n):
        g1 = [i for i in range(n) if lab[i] == 1]
        g2 = [i for i in range(n) if lab[i] == 2]
        if g1 and g2:
            out.append((g1, g2))
    if cap is not None and len(out) > cap:
        import random
        rnd = random.Random(seed)
        out = rnd.sample(out, cap)
    return out


def cross_spec_counts(A, g1, g2):
    """per node of g1: (#pairs p<q in g2 both adjacent to v, #such pairs that are also linked)"""
    res = []
    for v in g1:
        triples, tri = 0, 0
        for a in range(len(g2)):
            for b in range(a + 1, len(g2)):
                p, q = g2[a], g2[b]
                both = and_(eq(A.get(v, p), 1), eq(A.get(v, q), 1))
                triples = add(triples, ite(both, 1, 0))
                tri = add(tri, ite(and_(both, eq(A.get(p, q), 1)), 1, 0))
        res.append((triples, tri))
    return res


def ob_cross_kernels(name, prop, n, pairs, shuffle_seed=None):
    """_cross_transitivity and _cross_local_clustering == sub-block definitions, for the given node-list pairs.
    With shuffle_seed the node lists are passed in a shuffled order (result must not depend on it)."""
    import random
    mod = kern.module(CO)
    A, bits, deg = adj_deg(n)
    funcs = [mod.func_info("_cross_transitivity"), mod.func_info("_cross_local_clustering")]
    bad = []
    hyps = []
    rnd = random.Random(shuffle_seed)
    meta = []
    for (g1, g2) in pairs:
        l1, l2 = list(g1), list(g2)
        if shuffle_seed is not None:
            rnd.shuffle(l1)
            rnd.shuffle(l2)
        n1 = Arr((len(l1),), l1, "int32")
        n2 = Arr((len(l2),), l2, "int32")
        run = Run(mod, loop_bound=n, split=False)
        ct = run.call("_cross_transitivity", [A, n1, n2])
        counts = cross_spec_counts(A, l1, l2)
        T = sx.total(c[0] for c in counts)
        G = sx.total(c[1] for c in counts)
        # ct == G / T (0 if T == 0); T has a small range -> case split keeps it linear
        maxT = len(l1) * len(l2) * (len(l2) - 1) // 2
        ok = implies(eq(T, 0), eq(ct, 0))
        for tv in range(1, maxT + 1):
            ok = and_(ok, implies(eq(T, tv), eq(ct, div(G, tv))))
        bad.append(or_(not_(run.ok()), not_(ok)))
        meta.append(("transitivity", l1, l2))
        hyps += run.assumptions
        # local clustering with the wrapper's norm = k(k-1)/2 from the cross degree
        run2 = Run(mod, loop_bound=n, split=False)
        cdeg = [sx.total(A.get(v, p) for p in l2) for v in l1]
        norm = Arr((len(l1),), [div(mul(k, sub(k, 1)), 2) for k in cdeg], "float64")
        out = Arr.full((len(l1),), 0, "float64")
        run2.call("_cross_local_clustering", [A, norm, n1, n2, out])
        ok2 = True
        for idx, (trp, tri) in enumerate(counts):
            ok2 = and_(ok2, implies(eq(trp, 0), eq(out.data[idx], 0)))
            for tv in range(1, len(l2) * (len(l2) - 1) // 2 + 1):
                ok2 = and_(ok2, implies(eq(trp, tv), eq(out.data[idx], div(tri, tv))))
        bad.append(or_(not_(run2.ok()), not_(ok2)))
        meta.append(("local_clustering", l1, l2))
        hyps += run2.assumptions

    def wit(m):
        Am = mv_arr(m, A)
        return {"kind": "cross", "A": Am, "pairs": [[p[1], p[2]] for p in meta[::2]]}
    return decide(name, hyps, bad, funcs,
                  f"all undirected graphs n={n}; {len(pairs)} ordered pairs of disjoint node lists"
                  + (" in shuffled list order" if shuffle_seed is not None else ""),
                  f"{prop}|_cross_transitivity,_cross_local_clustering|sub-block-definition", wit, timeout=600)


def ob_nsi_cross_kernels(name, prop, n, pairs):
    """_nsi_cross_transitivity / _nsi_cross_local_clustering (A+ = A + I, weights w>0) == defining sums"""
    mod = kern.module(CO)
    A, bits, deg = adj_deg(n, diag=1)
    w = [z3.Real(f"w{i}") for i in range(n)]
    hyp_w = [x > 0 for x in w]
    W = Arr((n,), w, "float64")
    funcs = [mod.func_info("_nsi_cross_transitivity"), mod.func_info("_nsi_cross_local_clustering")]
    bad = []
    hyps = list(hyp_w)
    for (g1, g2) in pairs:
        n1 = Arr((len(g1),), list(g1), "int32")
        n2 = Arr((len(g2),), list(g2), "int32")
        # definitions
        T1, T2 = 0, 0
        loc = []
        for v in g1:
            s2 = 0
            s1 = 0
            for p in g2:
                for q in g2:
                    both = and_(eq(A.get(v, p), 1), eq(A.get(v, q), 1))
                    term = mul(w[p], w[q])
                    s2 = add(s2, ite(both, term, 0))
                    s1 = add(s1, ite(and_(both, eq(A.get(p, q), 1)), term, 0))
            T1 = add(T1, mul(w[v], s1))
            T2 = add(T2, mul(w[v], s2))
            loc.append(s1)
        run = Run(mod, loop_bound=n, split=False, hyps=hyp_w)
        ct = run.call("_nsi_cross_transitivity", [A, n1, n2, W])
        anylink = or_(*[eq(A.get(v, p), 1) for v in g1 for p in g2])
        zde = or_(*[e.cond for e in run.events if e.kind == "ZeroDivisionError"])
        other = or_(*[e.cond for e in run.events if e.kind != "ZeroDivisionError"])
        # 0/0 (no cross link at all) is outside the definition; with a cross link: no exception, value = T1/T2
        bad.append(and_(anylink, or_(zde, other, ne(mul(ct, T2), T1))))
        hyps += run.assumptions
        run2 = Run(mod, loop_bound=n, split=False, hyps=hyp_w)
        out = Arr.full((len(g1),), 0, "float64")
        run2.call("_nsi_cross_local_clustering", [A, out, n1, n2, W])
        bad.append(or_(not_(run2.ok()), *[ne(out.data[k], loc[k]) for k in range(len(g1))]))
        hyps += run2.assumptions

    def wit(m):
        return {"kind": "nsi-cross", "A": mv_arr(m, A), "w": [mv(m, x) for x in w], "pairs": [[list(a), list(b)] for a, b in pairs]}
    return decide(name, hyps, bad, funcs,
                  f"all undirected graphs n={n} (+unit diagonal), real weights > 0; {len(pairs)} ordered pairs of disjoint node lists",
                  f"{prop}|_nsi_cross_transitivity,_nsi_cross_local_clustering|defining-sums", wit, timeout=600)


# ----------------------------------------------------------------------------------- Newman chunk kernels
def newman_formula(A, V, n, i, w=None, mask=None):
    """sum_j A_ij sum_{s admissible} sum_{t<s admissible} |V_is - V_js - V_it + V_jt|  (optionally weighted)"""
    tot = 0
    for j in range(n):
        inner = 0
        for s in range(n):
            adm_s = ne(i, s) if mask is None else sx.truth(mask.get(i, s))
            ss = 0
            for t in range(s):
                adm_t = ne(i, t) if mask is None else sx.truth(mask.get(i, t))
                term = sx.abs_(add(sub(sub(V.get(i, s), V.get(j, s)), V.get(i, t)), V.get(j, t)))
                if w is not None:
                    term = mul(w[t], term)
                ss = add(ss, ite(adm_t, term, 0))
            if w is not None:
                ss = mul(w[s], ss)
            inner = add(inner, ite(adm_s, ss, 0))
        if w is not None:
            inner = mul(w[j], inner)
        tot = add(tot, ite(eq(A.get(i, j), 1), inner, 0))
    return tot


def ob_newman_chunks(name, prop, n, nsi):
    """for every 0 <= s < e <= n the chunk kernel on rows [s, e) returns the corresponding slice of the defining sum"""
    mod = kern.module(CO)
    fn = "_mpi_nsi_newman_betweenness" if nsi else "_mpi_newman_betweenness"
    if nsi:
        A, bits, deg = adj_deg(n, diag=1)
    else:
        A, bits, deg = adj_deg(n)
    V = kern.sym_real_arr((n, n), "v")
    w = [z3.Real(f"w{i}") for i in range(n)] if nsi else None
    hyp = [x > 0 for x in w] if nsi else []
    mask = None
    if nsi:
        # wrapper passes not_adj_or_equal = 1 - A+ ; keep it symbolic-consistent
        mask = Arr((n, n), [sub(1, x) for x in A.data], "int8")
    full = [newman_formula(A, V, n, i, w, mask) for i in range(n)]
    bad = []
    hyps = list(hyp)
    for s in range(n):
        for e in range(s + 1, n + 1):
            rows = Arr((e - s, n), [A.get(i, j) for i in range(s, e) for j in range(n)], "int8")
            run = Run(mod, loop_bound=n, split=False, hyps=hyp)
            if nsi:
                mrows = Arr((e - s, n), [mask.get(i, j) for i in range(s, e) for j in range(n)], "int8")
                res = run.call(fn, [rows, V, n, Arr((n,), w, "float64"), mrows, s, e])
            else:
                res = run.call(fn, [rows, V, n, s, e])
            vals, rs, re_ = res
            b = or_(not_(run.ok()), ne(rs, s), ne(re_, e), *[ne(vals.data[k], full[s + k]) for k in range(e - s)])
            bad.append(b)
            hyps += run.assumptions

    def wit(m):
        return {"kind": "newman-chunk", "nsi": nsi, "A": mv_arr(m, A), "V": mv_arr(m, V),
                "w": [mv(m, x) for x in w] if nsi else None}
    return decide(name, hyps, bad, [mod.func_info(fn)],
                  f"all graphs n={n}, real V" + (", weights>0" if nsi else "") + f", all {n * (n + 1) // 2} contiguous chunks",
                  f"{prop}|{fn}|chunk=slice-of-defining-sum", wit, timeout=600)


# ----------------------------------------------------------------------------------- validation
def validate(notes, which=("cliq", "cross", "newman")):
    import numpy as np
    ok = 0

    def mkA(rng, n, diag=0):
        A = (rng.random((n, n)) < 0.55).astype("int8")
        A = np.triu(A, 1)
        A = A + A.T
        if diag:
            np.fill_diagonal(A, 1)
        return A
    if "cliq" in which:
        def mk(rng, t):
            n = int(rng.integers(3, 9))
            A = mkA(rng, n)
            d = A.sum(axis=0).astype("int16")
            return [n, A, d], [n, kern.from_numpy(A), kern.from_numpy(d)]
        cmp_ = lambda cres, cargs, ires, iargs: kcheck.close(cres, kern.to_numpy(ires))
        ok += kcheck.validate_kernel(CO, "_local_cliquishness_4thorder", mk, 4, cmp_, notes)
        ok += kcheck.validate_kernel(CO, "_local_cliquishness_5thorder", mk, 4, cmp_, notes)
    if "cross" in which:
        def mkc(rng, t):
            n = int(rng.integers(3, 9))
            A = mkA(rng, n)
            perm = rng.permutation(n)
            k = int(rng.integers(1, n))
            n1, n2 = perm[:k].astype("int32"), perm[k:].astype("int32")
            return [A, n1, n2], [kern.from_numpy(A), kern.from_numpy(n1), kern.from_numpy(n2)]
        ok += kcheck.validate_kernel(CO, "_cross_transitivity", mkc, 5,
                                     lambda cres, cargs, ires, iargs: abs(float(cres) - float(ires)) < 1e-12, notes)

        def mkl(rng, t):
            c, i = mkc(rng, t)
            k = len(c[1])
            norm = rng.integers(0, 3, k).astype("float64")
            out = np.zeros(k)
            return [c[0], norm, c[1], c[2], out], [i[0], kern.from_numpy(norm, False), i[1], i[2], Arr.full((k,), 0.0, "float64")]
        ok += kcheck.validate_kernel(CO, "_cross_local_clustering", mkl, 5,
                                     lambda cres, cargs, ires, iargs: kcheck.close(cargs[4], kern.to_numpy(iargs[4])), notes)

        def mkn(rng, t):
            n = int(rng.integers(3, 8))
            A = mkA(rng, n, 1)
            perm = rng.permutation(n)
            k = int(rng.integers(1, n))
            n1, n2 = perm[:k].astype("int32"), perm[k:].astype("int32")
            A[n1[0], n2[0]] = A[n2[0], n1[0]] = 1
            w = rng.random(n) + 0.5
            return [A, n1, n2, w], [kern.from_numpy(A), kern.from_numpy(n1), kern.from_numpy(n2), kern.from_numpy(w, False)]
        ok += kcheck.validate_kernel(CO, "_nsi_cross_transitivity", mkn, 5,
                                     lambda cres, cargs, ires, iargs: abs(float(cres) - float(ires)) < 1e-9, notes)

        def mknl(rng, t):
            c, i = mkn(rng, t)
            k = len(c[1])
            return [c[0], np.zeros(k), c[1], c[2], c[3]], [i[0], Arr.full((k,), 0.0, "float64"), i[1], i[2], i[3]]
        ok += kcheck.validate_kernel(CO, "_nsi_cross_local_clustering", mknl, 5,
                                     lambda cres, cargs, ires, iargs: kcheck.close(cargs[1], kern.to_numpy(iargs[1]), 1e-9), notes)
    if "newman" in which:
        def mkv(rng, t):
            n = int(rng.integers(2, 7))
            A = mkA(rng, n)
            V = rng.random((n, n))
            s = int(rng.integers(0, n))
            e = int(rng.integers(s + 1, n + 1))
            return [A[s:e].copy(), V, n, s, e], [kern.from_numpy(A[s:e]), kern.from_numpy(V, False), n, s, e]
        ok += kcheck.validate_kernel(CO, "_mpi_newman_betweenness", mkv, 5,
                                     lambda cres, cargs, ires, iargs: kcheck.close(cres[0], kern.to_numpy(ires[0]), 1e-9)
                                     and cres[1] == ires[1] and cres[2] == ires[2], notes)

        def mkvn(rng, t):
            n = int(rng.integers(2, 7))
            A = mkA(rng, n, 1)
            V = rng.random((n, n))
            w = rng.random(n) + 0.5
            s = int(rng.integers(0, n))
            e = int(rng.integers(s + 1, n + 1))
            M = (1 - A).astype("int8")
            return [A[s:e].copy(), V, n, w, M[s:e].copy(), s, e], \
                   [kern.from_numpy(A[s:e]), kern.from_numpy(V, False), n, kern.from_numpy(w, False), kern.from_numpy(M[s:e]), s, e]
        ok += kcheck.validate_kernel(CO, "_mpi_nsi_newman_betweenness", mkvn, 5,
                                     lambda cres, cargs, ires, iargs: kcheck.close(cres[0], kern.to_numpy(ires[0]), 1e-9), notes)
    return ok


# ----------------------------------------------------------------------------------- replay
def ref_cliquishness(A, order):
    n = len(A)
    out = []
    for i in range(n):
        nb = [j for j in range(n) if A[i][j]]
        k = len(nb)
        if k < order - 1:
            out.append(0.0)
            continue
        cnt = sum(1 for S in itertools.combinations(nb, order - 1)
                  if all(A[p][q] for p, q in itertools.combinations(S, 2)))
        out.append(cnt / math.comb(k, order - 1))
    return out


def replay(w):
    import numpy as np
    from pyunicorn.core import Network, InteractingNetworks
    from pyunicorn.core._ext import numerics as CN
    kind = w["kind"]
    if kind == "cliquishness":
        A = np.array(w["A"], dtype="int8")
        net = Network(adjacency=A, silence_level=3)
        got = net.local_cliquishness(w["order"])
        ref = ref_cliquishness(A.tolist(), w["order"])
        return (not np.allclose(got, ref)), f"local_cliquishness({w['order']}) on {A.tolist()}: {list(got)} definition {ref}"
    if kind == "cliquishness-perm":
        A = np.array(w["A"], dtype="int8")
        perm = w["perm"]
        n = len(perm)
        B = np.zeros_like(A)
        for i in range(n):
            for j in range(n):
                B[perm[i], perm[j]] = A[i, j]
        a = Network(adjacency=A, silence_level=3).local_cliquishness(w["order"])
        b = Network(adjacency=B, silence_level=3).local_cliquishness(w["order"])
        return (not np.allclose(a, [b[perm[i]] for i in range(n)])), f"A={A.tolist()} perm={perm}: {list(a)} vs permuted {list(b)}"
    if kind == "cross":
        A = np.array(w["A"], dtype="int8")
        net = InteractingNetworks(adjacency=A, silence_level=3)
        msgs = []
        bad = False
        for l1, l2 in w["pairs"]:
            T = G = 0
            loc = []
            for v in l1:
                nb = [p for p in l2 if A[v, p]]
                trp = len(nb) * (len(nb) - 1) // 2
                tri = sum(1 for a, b in itertools.combinations(nb, 2) if A[a, b])
                T += trp
                G += tri
                loc.append(tri / trp if trp else 0.0)
            ct = net.cross_transitivity(l1, l2)
            cl = net.cross_local_clustering(l1, l2)
            if abs(ct - (G / T if T else 0.0)) > 1e-12 or not np.allclose(cl, loc):
                bad = True
                msgs.append(f"lists {l1},{l2}: cross_transitivity {ct} (def {G / T if T else 0.0}); cross_local_clustering {list(cl)} (def {loc})")
        return bad, f"A={A.tolist()} " + "; ".join(msgs[:3])
    if kind == "nsi-cross":
        A = np.array(w["A"], dtype="int8")
        np.fill_diagonal(A, 0)
        wt = np.array(core.to_float(w["w"]), dtype=float)
        net = InteractingNetworks(adjacency=A, node_weights=wt, silence_level=3)
        Ap = A + np.eye(len(A), dtype="int8")
        bad = False
        msgs = []
        for l1, l2 in w["pairs"]:
            T1 = T2 = 0.0
            loc = []
            for v in l1:
                s1 = sum(wt[p] * wt[q] for p in l2 for q in l2 if Ap[v, p] and Ap[v, q] and Ap[p, q])
                s2 = sum(wt[p] * wt[q] for p in l2 for q in l2 if Ap[v, p] and Ap[v, q])
                T1 += wt[v] * s1
                T2 += wt[v] * s2
                loc.append(s1 / s2 if s2 else 0.0)
            if T2 == 0:
                continue
            try:
                ct = net.nsi_cross_transitivity(l1, l2)
                cl = net.nsi_cross_local_clustering(l1, l2)
            except Exception as e:  # noqa
                bad = True
                msgs.append(f"lists {l1},{l2}: {type(e).__name__}: {e}")
                continue
            if abs(ct - T1 / T2) > 1e-9 * max(1, abs(T1 / T2)) or not np.allclose(cl, loc, rtol=1e-9):
                bad = True
                msgs.append(f"lists {l1},{l2}: nsi_cross_transitivity {ct} (def {T1 / T2}); nsi_cross_local_clustering {list(cl)} (def {loc})")
        return bad, f"A={A.tolist()} w={wt.tolist()} " + "; ".join(msgs[:3])
    if kind == "newman-chunk":
        A = np.array(w["A"], dtype="int8")
        V = np.array(core.to_float(w["V"]), dtype=float)
        n = len(A)
        wt = np.array(core.to_float(w["w"]), dtype=float) if w.get("w") else None
        M = (1 - A).astype("int8")

        def full(i):
            tot = 0.0
            for j in range(n):
                if not A[i, j]:
                    continue
                inner = 0.0
                for s in range(n):
                    if (wt is None and s == i) or (wt is not None and not M[i, s]):
                        continue
                    ss = 0.0
                    for t in range(s):
                        if (wt is None and t == i) or (wt is not None and not M[i, t]):
                            continue
                        term = abs(V[i, s] - V[j, s] - V[i, t] + V[j, t])
                        ss += term * (wt[t] if wt is not None else 1)
                    inner += ss * (wt[s] if wt is not None else 1)
                tot += inner * (wt[j] if wt is not None else 1)
            return tot
        ref = [full(i) for i in range(n)]
        bad = False
        msg = ""
        for s in range(n):
            for e in range(s + 1, n + 1):
                if wt is None:
                    got = CN._mpi_newman_betweenness(A[s:e].copy(), V, n, s, e)
                else:
                    got = CN._mpi_nsi_newman_betweenness(A[s:e].copy(), V, n, wt, M[s:e].copy(), s, e)
                if not np.allclose(got[0], ref[s:e], rtol=1e-9, atol=1e-12) or got[1] != s or got[2] != e:
                    bad = True
                    msg = f"chunk [{s},{e}): {list(got[0])} expected {ref[s:e]}"
        return bad, f"A={A.tolist()} {msg}"
    if kind == "cross-perm":
        A = np.array(w["A"], dtype="int8")
        wt = np.array(core.to_float(w["w"]), dtype=float)
        perm = w["perm"]
        n = len(perm)
        B = np.zeros_like(A)
        wB = np.zeros(n)
        for i in range(n):
            wB[perm[i]] = wt[i]
            for j in range(n):
                B[perm[i], perm[j]] = A[i, j]
        na = InteractingNetworks(adjacency=A, node_weights=wt, silence_level=3)
        nb = InteractingNetworks(adjacency=B, node_weights=wB, silence_level=3)
        bad = False
        msg = ""
        for l1, l2 in w["pairs"]:
            h1, h2 = [perm[v] for v in l1], [perm[v] for v in l2]
            x, y = na.cross_transitivity(l1, l2), nb.cross_transitivity(h1, h2)
            u, v = na.nsi_cross_local_clustering(l1, l2), nb.nsi_cross_local_clustering(h1, h2)
            if abs(x - y) > 1e-12 or not np.allclose(u, v, rtol=1e-9):
                bad = True
                msg = f"lists {l1},{l2}: {x} vs {y}; {list(u)} vs {list(v)}"
        return bad, f"A={A.tolist()} perm={perm} {msg}"
    if kind == "nsi-betw-definition":
        wt = np.array(core.to_float(w["w"]), dtype=float)
        srcmask = [int(x) for x in w["src"]]
        src = [i for i, s_ in enumerate(srcmask) if s_]
        if not src:
            return False, "empty source set"
        probs = []
        for G, targets in w["cases"]:
            A = np.array(G, dtype="int8")
            n = len(A)
            net = Network(adjacency=A, node_weights=wt, silence_level=3)
            got = np.asarray(net.nsi_betweenness(sources=src, targets=targets), dtype=float)
            ref = np.array([float(core.to_float(nsi_betw_spec(G, [Fraction(x).limit_denominator(10 ** 9) for x in wt], srcmask, list(targets), i)))
                            for i in range(n)])
            if not np.allclose(got, ref, rtol=1e-7, atol=1e-9):
                probs.append(f"A={A.tolist()} w={wt.tolist()} sources={src} targets={targets}: nsi_betweenness {got.tolist()} vs definition {ref.tolist()}")
        return bool(probs), "; ".join(probs[:3])
    if kind in ("nsi-betw-perm", "nsi-betw-additive"):
        wt = np.array(core.to_float(w["w"]), dtype=float)
        bad = False
        msg = ""
        for G in w["graphs"]:
            A = np.array(G, dtype="int8")
            n = len(A)
            if kind == "nsi-betw-perm":
                perm = w["perm"]
                B = np.zeros_like(A)
                wB = np.zeros(n)
                for i in range(n):
                    wB[perm[i]] = wt[i]
                    for j in range(n):
                        B[perm[i], perm[j]] = A[i, j]
                a = Network(adjacency=A, node_weights=wt, silence_level=3).nsi_betweenness()
                b = Network(adjacency=B, node_weights=wB, silence_level=3).nsi_betweenness()
                if not np.allclose(a, [b[perm[i]] for i in range(n)], rtol=1e-9, atol=1e-12):
                    bad = True
                    msg = f"A={A.tolist()} perm={perm}: {list(a)} vs {list(b)}"
            else:
                src = [i for i, s_ in enumerate(w["src"]) if s_]
                net = Network(adjacency=A, node_weights=wt, silence_level=3)
                full = net.nsi_betweenness(sources=src or None)
                for cut in range(1, n):
                    p1 = net.nsi_betweenness(sources=src or None, targets=list(range(cut)))
                    p2 = net.nsi_betweenness(sources=src or None, targets=list(range(cut, n)))
                    if not np.allclose(full, p1 + p2, rtol=1e-9, atol=1e-12):
                        bad = True
                        msg = f"A={A.tolist()} cut={cut}: {list(full)} vs {list(p1 + p2)}"
        return bad, msg
    return False, "unknown witness kind"


# ----------------------------------------------------------------------------------- _nsi_betweenness (topologies mode)
def all_graphs(n):
    pairs = [(i, j) for i in range(n) for j in range(i + 1, n)]
    for bitsv in itertools.product((0, 1), repeat=len(pairs)):
        A = [[0] * n for _ in range(n)]
        for (i, j), b in zip(pairs, bitsv):
            A[i][j] = A[j][i] = b
        yield A


def run_nsi_betweenness(A, w, is_source, targets, prefix="k", hyps=None):
    """interpret core._nsi_betweenness on a concrete topology A with weights w (terms) -> Arr of betweenness*w"""
    mod = kern.module(CO)
    n = len(A)
    k = [sum(A[i]) for i in range(n)]
    flat = [j for i in range(n) for j in range(n) if A[i][j]]
    run = Run(mod, loop_bound=n + 1, split=False, prefix=prefix, hyps=hyps)
    out = run.call("_nsi_betweenness", [n, Arr((n,), list(w), "float64"), Arr((n,), k, "int16"),
                                         Arr((len(flat),), flat, "int32"), Arr((n,), list(is_source), "int8"),
                                         Arr((len(targets),), list(targets), "int32")])
    return out, run


def ob_nsi_betw_additive(name, prop, n, graphs):
    """kernel over targets T == sum of the kernel over the parts of any split of T (what parallelize=True relies on)"""
    mod = kern.module(CO)
    w = [z3.Real(f"w{i}") for i in range(n)]
    src = [z3.Int(f"s{i}") for i in range(n)]
    hyp = [x > 0 for x in w] + [z3.Or(s == 0, s == 1) for s in src]
    bad = []
    hyps = list(hyp)
    cases = []
    for A in graphs:
        targets = list(range(n))
        full, r0 = run_nsi_betweenness(A, w, src, targets, "f", hyp)
        hyps += r0.assumptions
        for cut in range(1, n):
            a, r1 = run_nsi_betweenness(A, w, src, targets[:cut], "a", hyp)
            b, r2 = run_nsi_betweenness(A, w, src, targets[cut:], "b", hyp)
            hyps += r1.assumptions + r2.assumptions
            bad.append(or_(not_(r0.ok()), not_(r1.ok()), not_(r2.ok()),
                           *[ne(full.data[i], add(a.data[i], b.data[i])) for i in range(n)]))
            cases.append((A, cut))

    def wit(m):
        return {"kind": "nsi-betw-additive", "w": [mv(m, x) for x in w], "src": [mv(m, x) for x in src],
                "graphs": [c[0] for c in cases[:50]]}
    return decide(name, hyps, bad, [mod.func_info("_nsi_betweenness")],
                  f"{len(graphs)} labelled graphs on n={n} nodes (concrete topologies), real weights>0, source mask bits, all contiguous target splits",
                  f"{prop}|_nsi_betweenness|additive-over-targets", wit, timeout=300)


def shortest_paths(A):
    """all shortest paths of a concrete topology: {(s, t): [node lists]} for reachable ordered pairs s != t"""
    n = len(A)
    out = {}
    for s in range(n):
        dist = {s: 0}
        preds = {}
        q = [s]
        while q:
            v = q.pop(0)
            for u in range(n):
                if A[v][u]:
                    if u not in dist:
                        dist[u] = dist[v] + 1
                        q.append(u)
                    if dist[u] == dist[v] + 1:
                        preds.setdefault(u, []).append(v)

        def build(t):
            if t == s:
                return [[s]]
            return [p + [t] for v in preds.get(t, []) for p in build(v)]
        for t in dist:
            if t != s:
                out[(s, t)] = build(t)
    return out


def prod(xs):
    r = 1
    for x in xs:
        r = mul(r, x)
    return r


def nsi_betw_spec(A, w, src, targets, i):
    """n.s.i. shortest-path betweenness of node i by definition: sum over ordered pairs (s, t), s a source, t a target, i not an end
    point, of w_s w_t * (weight of the shortest s-t paths through i, leaving out w_i) / (weight of all shortest s-t paths); the weight of
    a path is the product of the weights of its inner nodes.  (unit weights: twice the classical betweenness)"""
    tot = 0
    for (s, t), pl in shortest_paths(A).items():
        if i in (s, t) or t not in targets:
            continue
        through = [p for p in pl if i in p[1:-1]]
        if not through:
            continue
        num = sx.total(prod([w[v] for v in p[1:-1] if v != i]) for p in through)
        den = sx.total(prod([w[v] for v in p[1:-1]]) for p in pl)
        mult = targets.count(t)
        term = mul(mul(mul(src[s], w[s]), w[t]), div(num, den))
        tot = add(tot, mul(mult, term))
    return tot


def ob_nsi_betw_definition(name, prop, n, graphs):
    """_nsi_betweenness(...)[i] == w_i * (n.s.i. betweenness of i by definition), symbolic weights and source mask, on concrete topologies
    (connected or not), for all targets and for a proper subset of targets"""
    mod = kern.module(CO)
    w = [z3.Real(f"w{i}") for i in range(n)]
    src = [z3.Int(f"s{i}") for i in range(n)]
    hyp = [x > 0 for x in w] + [z3.Or(s == 0, s == 1) for s in src]
    bad, hyps, cases = [], list(hyp), []
    for A in graphs:
        for targets in (list(range(n)), list(range(n - 1, -1, -2))):
            out, r = run_nsi_betweenness(A, w, src, targets, f"d{len(cases)}", hyp)
            hyps += r.assumptions
            bad.append(not_(r.ok()))
            for i in range(n):
                bad.append(ne(out.data[i], mul(w[i], nsi_betw_spec(A, w, src, targets, i))))
            cases.append((A, targets))

    def wit(m):
        return {"kind": "nsi-betw-definition", "w": [mv(m, x) for x in w], "src": [mv(m, x) for x in src],
                "cases": [[c[0], c[1]] for c in cases]}
    return decide(name, hyps, bad, [mod.func_info("_nsi_betweenness")],
                  f"{len(graphs)} labelled graphs on n={n} nodes (concrete topologies incl. disconnected), real weights>0, source mask bits, "
                  "all targets and every second target", f"{prop}|_nsi_betweenness|definition", wit, timeout=300)


def ob_cross_perm(name, prop, n, pairs, k):
    """cross kernels on the renumbered network (transposition k<->k+1, lists renumbered) return the same values"""
    mod = kern.module(CO)
    A, bits, deg = adj_deg(n)
    perm = list(range(n))
    perm[k], perm[k + 1] = perm[k + 1], perm[k]
    B = permute_arr(A, perm)
    w = [z3.Real(f"w{i}") for i in range(n)]
    hyp_w = [x > 0 for x in w]
    wB = [None] * n
    for i in range(n):
        wB[perm[i]] = w[i]
    Ap = A.copy()
    Bp = B.copy()
    for i in range(n):
        Ap.set((i, i), 1)
        Bp.set((i, i), 1)
    bad = []
    hyps = list(hyp_w)
    for (g1, g2) in pairs:
        h1, h2 = [perm[v] for v in g1], [perm[v] for v in g2]
        ra = Run(mod, loop_bound=n, split=False, prefix="a")
        rb = Run(mod, loop_bound=n, split=False, prefix="b")
        ta = ra.call("_cross_transitivity", [A, Arr((len(g1),), g1, "int32"), Arr((len(g2),), g2, "int32")])
        tb = rb.call("_cross_transitivity", [B, Arr((len(h1),), h1, "int32"), Arr((len(h2),), h2, "int32")])
        bad.append(or_(not_(ra.ok()), not_(rb.ok()), ne(ta, tb)))
        oa = Arr.full((len(g1),), 0, "float64")
        ob = Arr.full((len(g1),), 0, "float64")
        ra2 = Run(mod, loop_bound=n, split=False, prefix="a2", hyps=hyp_w)
        rb2 = Run(mod, loop_bound=n, split=False, prefix="b2", hyps=hyp_w)
        ra2.call("_nsi_cross_local_clustering", [Ap, oa, Arr((len(g1),), g1, "int32"), Arr((len(g2),), g2, "int32"), Arr((n,), w, "float64")])
        rb2.call("_nsi_cross_local_clustering", [Bp, ob, Arr((len(h1),), h1, "int32"), Arr((len(h2),), h2, "int32"), Arr((n,), wB, "float64")])
        bad.append(or_(not_(ra2.ok()), not_(rb2.ok()), *[ne(x, y) for x, y in zip(oa.data, ob.data)]))
        hyps += ra.assumptions + rb.assumptions + ra2.assumptions + rb2.assumptions

    def wit(m):
        return {"kind": "cross-perm", "A": mv_arr(m, A), "w": [mv(m, x) for x in w], "perm": perm,
                "pairs": [[list(a), list(b)] for a, b in pairs]}
    return decide(name, hyps, bad, [mod.func_info("_cross_transitivity"), mod.func_info("_nsi_cross_local_clustering")],
                  f"all undirected graphs n={n}, weights>0, transposition ({k},{k + 1}), {len(pairs)} list pairs",
                  f"{prop}|cross kernels|renumbering", wit, timeout=600)


def ob_nsi_betw_perm(name, prop, n, graphs, k):
    """_nsi_betweenness on a renumbered topology (transposition) permutes the result"""
    mod = kern.module(CO)
    w = [z3.Real(f"w{i}") for i in range(n)]
    hyp = [x > 0 for x in w]
    perm = list(range(n))
    perm[k], perm[k + 1] = perm[k + 1], perm[k]
    wB = [None] * n
    for i in range(n):
        wB[perm[i]] = w[i]
    bad = []
    hyps = list(hyp)
    for A in graphs:
        B = [[0] * n for _ in range(n)]
        for i in range(n):
            for j in range(n):
                B[perm[i]][perm[j]] = A[i][j]
        a, ra = run_nsi_betweenness(A, w, [1] * n, list(range(n)), "a", hyp)
        b, rb = run_nsi_betweenness(B, wB, [1] * n, list(range(n)), "b", hyp)
        hyps += ra.assumptions + rb.assumptions
        bad.append(or_(not_(ra.ok()), not_(rb.ok()), *[ne(a.data[i], b.data[perm[i]]) for i in range(n)]))

    def wit(m):
        return {"kind": "nsi-betw-perm", "w": [mv(m, x) for x in w], "perm": perm, "graphs": graphs[:64]}
    return decide(name, hyps, bad, [mod.func_info("_nsi_betweenness")],
                  f"{len(graphs)} labelled graphs n={n}, weights>0, transposition ({k},{k + 1})",
                  f"{prop}|_nsi_betweenness|renumbering", wit, timeout=300)
