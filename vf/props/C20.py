"""C20 — compiled kernels never touch memory outside their arrays (Engine K in safety mode + C front end)."""
import itertools
import re

import numpy as np
import z3

from .. import cfront, core, kern, sx
from ..core import HELD, INCONCLUSIVE, VIOLATED, Q, result
from ..kern import Arr, Run
from ..sx import add, and_, eq, ge, gt, le, lt, mul, ne, not_, or_, sub

PROP = "C20"
META = {
    "bounds": "raw-pointer C functions through their .pyx wrappers with every dimension in {1,2,3} (N != T combinations), symbolic contents "
              "under the value ranges the Python callers establish; typed-buffer kernels: bounds checking directives read from setup.py",
    "assumptions": ["source-level reasoning under C99 / Cython semantics (an ASan run of the binary would be the complementary technique)",
                    "exact reals for the float->bin index arithmetic (the IEEE version of the bin-index lemma is a separate obligation)",
                    "int arithmetic i*N+j does not overflow for the dimensions in the bound (N < 46341 in general)"],
    "outside": ["the compiled artefact", "NumPy / igraph internals", "dimension 0 for kernels whose Python caller already raises on empty input",
                "calling the private compiled wrappers directly with sizes that contradict the arrays (the public methods derive them from the arrays)"],
}

SAFETY = ("OutOfBounds", "TypePunning", "DivisionByZero", "NegativeAllocation", "OOB")


def extern_for(pkg, stop=True):
    cm = cfront.cmodule(pkg)

    def ext(name, args, run, g):
        cr = cfront.CRun(cm, hyps=run.hyps + run.assumptions, prefix=f"c{len(run.events)}", stop_on=SAFETY if stop else ())
        conv = []
        for a in args:
            if isinstance(a, kern.Ptr):
                conv.append(cfront.CPtr(a.arr, a.off, "char"))
            else:
                conv.append(a)
        run.c_last_args = conv
        try:
            res = cr.call(name, conv)
        except cfront.Found as f:
            run.events.append(kern.Event(f.event.kind, and_(g, f.event.cond), f.event.where))
            run.assumptions.extend(cr.assumptions)
            raise
        for e in cr.events:
            run.events.append(kern.Event(e.kind, and_(g, e.cond), e.where))
        run.assumptions.extend(cr.assumptions)
        run.c_stats = getattr(run, "c_stats", 0) + cr.stats["stmts"]
        return res
    return ext


def guarded_call(run, fn, args):
    """run the wrapper; a safety event already shown reachable ends the interpretation early (finish() decides on it)"""
    try:
        run.call(fn, args)
    except cfront.Found:
        pass


def finish(name, run, hyps, funcs, bound, sig, witfn):
    bad = [e for e in run.events if e.kind in SAFETY]
    nq = 0
    for e in bad:
        nq += 1
        v, m = Q.check(hyps + run.assumptions + [e.cond], 60, tag=f"{name}|{e.kind}@{e.where}")
        if v == "sat":
            m = core.normalised_model(hyps + run.assumptions + [e.cond], 30) or m
            w = witfn(m)
            w["event"] = f"{e.kind} at {e.where}"
            return result(name, VIOLATED, functions=funcs, bound=bound, twin="sat", signature=f"{sig}|{e.kind}", witness=w)
        if v != "unsat":
            return result(name, INCONCLUSIVE, reason=f"unknown at {e}", functions=funcs, bound=bound)
    tv, _ = Q.check(hyps + run.assumptions, 20, tag=name + "|twin", want_model=False)
    return result(name, HELD, functions=funcs, bound=bound, twin=tv,
                  detail=f"{getattr(run, 'c_stats', 0)} C statements interpreted, {len(run.events)} candidate events, {nq} decided unsat")


def sym_arr(shape, prefix, dtype):
    n = int(np.prod(shape)) if shape else 1
    mk = z3.Real if dtype.startswith("float") else z3.Int
    return Arr(shape, [mk(f"{prefix}{k}") for k in range(n)], dtype, prefix)


def ob_mutual_information(name, N, T, bins):
    """climate.mutual_information: contract of MutualInfoClimateNetwork._cython_calculate_mutual_information:
    range_min = min(anomaly), scaling = 1/(max-min) > 0"""
    mod = kern.module("climate")
    cm = cfront.cmodule("climate")
    an = sym_arr((N, T), "a", "float32")
    lo, hi = z3.Real("lo"), z3.Real("hi")
    hyps = [lo < hi] + [z3.And(x >= lo, x <= hi) for x in an.data] + [z3.Or(*[x == lo for x in an.data]), z3.Or(*[x == hi for x in an.data])]
    run = Run(mod, loop_bound=max(N, T, bins) + 1, extern=extern_for("climate"), hyps=hyps, split=False)
    scaling = 1 / (hi - lo)
    guarded_call(run, "mutual_information", [an, T, N, bins, scaling, lo])
    funcs = [mod.func_info("mutual_information"), cm.func_info("_mutual_information")]

    def wit(m):
        return {"kind": "mutual_information", "N": N, "T": T, "bins": bins, "anomaly": an.nested(lambda x: sx.model_value(m, x))}
    return finish(name, run, hyps, funcs, f"N={N} series x T={T} samples, {bins} bins, symbolic values with the caller's range contract",
                  "C20|climate.mutual_information", wit)


def ob_spearman(name, m, tmax):
    """climate.spearman_corr(m, tmax, final_mask[m,tmax] int8, ranked[m,tmax] float32) as RainfallClimateNetwork.spearman_corr calls it"""
    mod = kern.module("climate")
    cm = cfront.cmodule("climate")
    mask = Arr((m, tmax), [z3.Int(f"mk{k}") for k in range(m * tmax)], "int8", "final_mask")
    rk = sym_arr((m, tmax), "rk", "float32")
    hyps = [z3.Or(x == 0, x == 1) for x in mask.data]
    run = Run(mod, loop_bound=max(m, tmax) + 1, extern=extern_for("climate"), hyps=hyps, split=False)
    guarded_call(run, "spearman_corr", [m, tmax, mask, rk])
    funcs = [mod.func_info("spearman_corr"), cm.func_info("_spearman_corr")]

    def wit(mm):
        return {"kind": "spearman", "m": m, "tmax": tmax}
    return finish(name, run, hyps, funcs, f"m={m} nodes, tmax={tmax} samples, symbolic mask and ranks", "C20|climate.spearman_corr", wit)


def ob_ts_tests(name, fn, N, T, bins):
    mod = kern.module("timeseries")
    cm = cfront.cmodule("timeseries")
    od, su = sym_arr((N, T), "o", "float64"), sym_arr((N, T), "s", "float64")
    hyps = []
    run = Run(mod, loop_bound=max(N, T, bins) + 1, extern=extern_for("timeseries"), hyps=hyps, split=False)
    if fn == "_test_pearson_correlation":
        guarded_call(run, fn, [od, su, N, T])
    else:
        guarded_call(run, fn, [od, su, N, T, bins])
    funcs = [mod.func_info(fn), cm.func_info(fn + "_fast")]

    def wit(m):
        return {"kind": "ts_test", "fn": fn, "N": N, "T": T, "bins": bins, "original": od.nested(lambda x: sx.model_value(m, x)),
                "surrogates": su.nested(lambda x: sx.model_value(m, x))}
    return finish(name, run, hyps, funcs, f"N={N}, T={T}" + (f", {bins} bins" if "mutual" in fn else ""), f"C20|timeseries.{fn}", wit)


def ob_ts_public(name, meth, N, T, T2):
    """Surrogates.test_pearson_correlation / test_mutual_information (public static methods) with surrogates of ANOTHER length than the
    original data (e.g. twin surrogates, which are shorter): the call is rejected with a Python exception or stays inside both arrays"""
    from pyunicorn.timeseries import surrogates as smod
    from .. import pe, pnet
    kfn = "_" + meth
    spec = [("float64"), ("float64"), None, None] + ([None] if "mutual" in meth else [])
    funcs = [f"src/pyunicorn/timeseries/surrogates.py Surrogates.{meth}", kern.module("timeseries").func_info(kfn),
             cfront.cmodule("timeseries").func_info(kfn + "_fast")]
    bound = f"original data {N} x {T}, surrogates {N} x {T2}, symbolic contents"
    od = np.array([[pe.SV(z3.Real(f"o_{i}_{k}")) for k in range(T)] for i in range(N)], dtype=object)
    su = np.array([[pe.SV(z3.Real(f"s_{i}_{k}")) for k in range(T2)] for i in range(N)], dtype=object)
    found = {}

    def harness(ex):
        shim = pnet.kernel_shim("timeseries", kfn, spec, extern=extern_for("timeseries"))
        with pe.patched([smod], {"pyunicorn.timeseries.surrogates": {kfn: shim}}):
            try:
                if "mutual" in meth:
                    smod.Surrogates.test_mutual_information(pe.SymNd(od.copy()), pe.SymNd(su.copy()), n_bins=2)
                else:
                    smod.Surrogates.test_pearson_correlation(pe.SymNd(od.copy()), pe.SymNd(su.copy()))
            except (ValueError, IndexError, TypeError, ZeroDivisionError):
                return "rejected"
            except cfront.Found as f:
                found["event"] = f"{f.event.kind} at {f.event.where}"
                return "violation"
        return "ran"
    ex = pe.Explorer([], max_paths=64)
    try:
        paths = ex.run(harness)
    except pe.Unsupported as e:
        return result(name, INCONCLUSIVE, reason=f"unsupported: {e}", functions=funcs, bound=bound)
    if any(p.result == "violation" for p in paths):
        return result(name, VIOLATED, functions=funcs, bound=bound, twin="sat", signature=f"C20|Surrogates.{meth}|surrogates of another length",
                      witness={"kind": "ts_public", "meth": meth, "N": N, "T": T, "T2": T2, "event": found.get("event", "")})
    return result(name, HELD, functions=funcs, bound=bound, twin="sat",
                  detail=f"{len(paths)} paths: " + ", ".join(sorted({str(p.result) for p in paths})))


def ob_current_flow(name, fn, N):
    mod = kern.module("core")
    cm = cfront.cmodule("core")
    adm, R = sym_arr((N, N), "y", "float32"), sym_arr((N, N), "r", "float32")
    run = Run(mod, loop_bound=N + 1, extern=extern_for("core"), split=False)
    if fn == "_vertex_current_flow_betweenness":
        i = z3.Int("i")
        hyps = [i >= 0, i < N]
        run.hyps = hyps
        guarded_call(run, fn, [N, 1, 1, adm, R, i])
    else:
        hyps = []
        guarded_call(run, fn, [N, 1, 1, adm, R])
    funcs = [mod.func_info(fn), cm.func_info(fn + "_fast")]

    def wit(m):
        return {"kind": "current_flow", "fn": fn, "N": N}
    return finish(name, run, hyps, funcs, f"N={N}, symbolic admittance / R" + (", symbolic node index in range" if "vertex" in fn else ""),
                  f"C20|core.{fn}", wit)


def ob_directives(name):
    """typed-buffer kernels: with boundscheck=True and wraparound=False every out-of-range or negative index raises IndexError
    (allowed by the property); raw pointers only appear in the wrappers of the extern C functions"""
    d = kern.boundscheck_setting()
    probs = []
    if not d["boundscheck"]:
        probs.append("setup.py switches boundscheck off: typed-buffer accesses are unchecked")
    raw = {}
    for pkg in ("core", "climate", "funcnet", "timeseries"):
        mod = kern.module(pkg)
        for fname, f in mod.funcs.items():
            pos = f.node.pos[1]
            end = pos
            while end < len(mod.lines) and not (end > pos and mod.lines[end][:1] not in (" ", "", "\t", ")") and not mod.lines[end].startswith("#")):
                end += 1
            text = "\n".join(mod.lines[pos - 1:end])
            if "PyArray_DATA" in text:
                calls = re.findall(r"(\w+)\(\s*(?:\w+,\s*)*<", text)
                raw[f"{pkg}.{fname}"] = True
            if re.search(r"boundscheck\(False\)|wraparound\(True\)", text):
                probs.append(f"{pkg}.{fname} overrides the bounds checking directives locally")
    funcs = ["setup.py (cy_args)"] + sorted(raw)
    if probs:
        return result(name, INCONCLUSIVE, functions=funcs, bound="all .pyx kernels",
                      reason="; ".join(probs) + " -- per-kernel memory-safety obligations for unchecked typed buffers are not built")
    return result(name, HELD, functions=funcs, twin="sat", bound="all 58 def / 11 cdef kernels of the four .pyx files",
                  detail=f"directives {d}; raw pointers only in {sorted(raw)} (each decided by its own obligation)")


def ob_bin_index_fp(name):
    """IEEE lemma for the histogram bin index of the C mutual-information kernels: 0 <= r < 1  =>  0 <= (long)(r*n_bins) <= n_bins-1"""
    D = z3.FPSort(11, 53)
    rm = z3.RNE()
    r = z3.FP("r", D)
    nb = z3.BitVec("nb", 16)
    nbf = z3.fpSignedToFP(rm, z3.ZeroExt(16, nb), D)
    prod = z3.fpMul(rm, r, nbf)
    idx = z3.fpToSBV(z3.RTZ(), prod, z3.BitVecSort(64))
    hyps = [z3.fpGEQ(r, z3.FPVal(0.0, D)), z3.fpLT(r, z3.FPVal(1.0, D)), z3.UGT(nb, 0), z3.ULE(nb, 4096)]
    bad = z3.Or(idx < 0, idx > z3.ZeroExt(48, nb) - 1)
    v, m = Q.check(hyps + [bad], 300, tag=name)
    funcs = [cfront.cmodule("climate").func_info("_mutual_information"), cfront.cmodule("timeseries").func_info("_test_mutual_information_fast")]
    if v == "unsat":
        return result(name, HELD, functions=funcs, bound="all doubles r in [0,1), n_bins <= 4096", twin="sat")
    if v == "sat":
        return result(name, VIOLATED, functions=funcs, bound="", twin="sat", signature="C20|bin-index|ieee", witness={"kind": "binindex"})
    return result(name, INCONCLUSIVE, reason="solver unknown", functions=funcs, bound="n_bins <= 4096")


def prepare(tier):
    return {"validated": 0, "validation": [], "source": {p: cfront.cmodule(p).sha for p in ("core", "climate", "timeseries")}}


def obligations(tier):
    th = tier == "thorough"
    dims = (1, 2, 3) if not th else (1, 2, 3, 4)
    obs = [(ob_directives, dict(name="C20|typed buffers|directives"), 300),
           (ob_bin_index_fp, dict(name="C20|bin index|ieee"), 600)]
    for N, T in itertools.product(dims, dims):
        obs.append((ob_spearman, dict(name=f"C20|spearman_corr|m={N},tmax={T}", m=N, tmax=T), 900))
        for bins in ((1, 2) if not th else (1, 2, 3)):
            if bins == 3 and N * T > 4:
                continue          # (tried: three bins with more than four samples per array exhaust the 900 s budget)
            if T >= 2:
                obs.append((ob_mutual_information, dict(name=f"C20|mutual_information|N={N},T={T},bins={bins}", N=N, T=T, bins=bins), 900))
                obs.append((ob_ts_tests, dict(name=f"C20|_test_mutual_information|N={N},T={T},bins={bins}", fn="_test_mutual_information", N=N, T=T, bins=bins), 900))
        obs.append((ob_ts_tests, dict(name=f"C20|_test_pearson_correlation|N={N},T={T}", fn="_test_pearson_correlation", N=N, T=T, bins=1), 900))
    for meth in ("test_pearson_correlation", "test_mutual_information"):
        for (N, T, T2) in ((2, 3, 2), (2, 3, 1), (3, 2, 1), (2, 2, 3)):
            obs.append((ob_ts_public, dict(name=f"C20|Surrogates.{meth}|original {N}x{T}, surrogates {N}x{T2}", meth=meth, N=N, T=T, T2=T2), 900))
    for N in dims:
        obs.append((ob_current_flow, dict(name=f"C20|_vertex_current_flow_betweenness|N={N}", fn="_vertex_current_flow_betweenness", N=N), 900))
        obs.append((ob_current_flow, dict(name=f"C20|_edge_current_flow_betweenness|N={N}", fn="_edge_current_flow_betweenness", N=N), 900))
    return obs


CRASH_IS_VIOLATION = True

CALLS = {
    "ts_public": """
from pyunicorn.timeseries import Surrogates
import pyunicorn.timeseries.surrogates as smod
# the public method copies its arguments (to_cy) before handing them to the kernel: place those copies before a guard page
smod.to_cy = lambda a, ty: guarded(np.asarray(a).astype(ty))
od = np.arange({N} * {T}, dtype='float64').reshape({N}, {T}) % 3
su = np.arange({N} * {T2}, dtype='float64').reshape({N}, {T2}) % 2
import io, contextlib
try:
    r = Surrogates.{meth}(od, su, n_bins=2) if 'mutual' in '{meth}' else Surrogates.{meth}(od, su)
    print('returned', r)
except (ValueError, IndexError, TypeError) as e:
    print('rejected:', type(e).__name__, e)
""",
    "spearman": """
from pyunicorn.climate._ext import numerics as CL
m, tmax = {m}, {tmax}
mask = guarded(np.ones((m, tmax), dtype='int8'))
rank = guarded((np.arange(m * tmax, dtype='float32').reshape(m, tmax) % tmax) + 1)
print(CL.spearman_corr(m, tmax, mask, rank))
""",
    "mutual_information": """
from pyunicorn.climate._ext import numerics as CL
an = guarded(np.array({anomaly}, dtype='float32'))
lo, hi = float(an.min()), float(an.max())
print(CL.mutual_information(an, {T}, {N}, {bins}, 1. / (hi - lo), lo))
""",
    "ts_test": """
from pyunicorn.timeseries._ext import numerics as TS
od = guarded(np.array({original}, dtype='float64'))
su = guarded(np.array({surrogates}, dtype='float64'))
args = (od, su, {N}, {T}) + (({bins},) if '{fn}' == '_test_mutual_information' else ())
print(getattr(TS, '{fn}')(*args))
""",
    "current_flow": """
from pyunicorn.core._ext import numerics as CO
N = {N}
adm = guarded(np.ones((N, N), dtype='float32'))
R = guarded(np.ones((N, N), dtype='float32'))
print([CO._vertex_current_flow_betweenness(N, 1.0, 1.0, adm, R, i) for i in range(N)] if '{fn}'.startswith('_vertex')
      else CO._edge_current_flow_betweenness(N, 1.0, 1.0, adm, R))
""",
}


def replay(w):
    """a source-level out-of-bounds access usually returns plausible numbers, so the replay makes it observable: the same call on the
    compiled kernel with every input array ending directly before an inaccessible page (vf/guard.py); death by SIGSEGV/SIGBUS is the
    demonstration.  For over-reads that stay inside the page (e.g. reading 4 bytes of a 1-byte mask element in the middle of the
    array) a second demonstration compares two runs on identical inputs followed by differently filled memory."""
    from .. import guard
    k = w["kind"]
    w = dict(w)
    for key in ("anomaly", "original", "surrogates"):
        if key in w:
            w[key] = np.array(core.to_float(w[key]), dtype=float).tolist()
    sig, out, rc = guard.run_guarded(CALLS[k].format(**{kk: vv for kk, vv in w.items()}))
    if sig in (11, 7):
        return True, (f"{w.get('event', '')}: compiled kernel killed by signal {sig} when its inputs end at an unmapped page "
                      f"({ {a: b for a, b in w.items() if a not in ('anomaly', 'original', 'surrogates')} })")
    if k == "ts_test":
        # a write a few bytes before a heap block is silent; push the samples of the witness that lie outside the range of the
        # original data further out (same shapes, same ordering of all samples) so that the wild access leaves the mapped heap
        f = core.to_float
        od, su = np.array(f(w["original"]), dtype=float), np.array(f(w["surrogates"]), dtype=float)
        lo, hi = od.min(), od.max()
        rng_ = max(hi - lo, 1e-9)
        su2 = np.where(su < lo, lo - (lo - su + rng_) * 1e7, np.where(su > hi, hi + (su - hi + rng_) * 1e7, su))
        if not np.array_equal(su, su2):
            w2 = dict(w, surrogates=su2.tolist(), original=od.tolist())
            sig2, out2, rc2 = guard.run_guarded(CALLS[k].format(**w2))
            if sig2 in (11, 7, 6):
                return True, (f"{w.get('event', '')}: {w['fn']}(N={w['N']}, T={w['T']}) killed by signal {sig2} for original {od.tolist()} and "
                              f"surrogates {su2.tolist()} (the witness' out-of-range samples {su.tolist()} pushed further out)")
    if k == "spearman":
        from pyunicorn.climate._ext import numerics as CL
        m, tmax = w["m"], w["tmax"]
        for logical in (1, 0):
            res = []
            for pad in (0, 1):
                mask = np.full((m, tmax), logical, dtype="int8")
                rank = (np.arange(m * tmax, dtype="float32").reshape(m, tmax) % tmax) + 1
                buf_m = np.concatenate([mask.ravel(), np.full(4 * m * (m + tmax) + 64, pad, dtype="int8")])
                buf_r = np.concatenate([rank.ravel(), np.full(m * (m + tmax) + 64, 50.0 * pad, dtype="float32")])
                res.append(np.array(CL.spearman_corr(m, tmax, buf_m[:m * tmax].reshape(m, tmax), buf_r[:m * tmax].reshape(m, tmax))))
            if not np.allclose(res[0], res[1], equal_nan=True):
                return True, (f"spearman_corr(m={m}, tmax={tmax}) on identical inputs followed by differently filled memory returns "
                              f"{res[0].tolist()} vs {res[1].tolist()}")
    return False, f"guard-page run exit={rc}: {out[-300:]}"
