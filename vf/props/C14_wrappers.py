"""wrapper-level obligations of C14 (Engine P) — filled in when Engine P lands"""


def obligations(tier):
    return []


def replay(w):
    return False, "unknown witness kind"
