"""C06 — queries are pure: no interference, inputs are never modified (Engine P with cell-level write tracking).

Frame argument: if every public query leaves every array reachable from the caller, from `self` and from the caches
equal to its pre-state, no ordering of queries can interfere; one frame query per method replaces all ordered pairs."""
import inspect
import itertools

import numpy as np
import z3

from .. import core, kern, pe, pnet, sx
from ..core import HELD, INCONCLUSIVE, VIOLATED, Q, result
from ..pe import SC, SV, Explorer, SymNd
from ..sx import add, and_, eq, ge, gt, ite, le, lt, mul, ne, not_, or_, sub

PROP = "C06"
META = {
    "bounds": "Network / InteractingNetworks: every measure Engine P executes (the C02 registry, degrees, clustering helpers, path based "
              "cross measures) on all-bits graphs n=3 resp. concrete topologies n=4 with symbolic weights and link attributes, queried "
              "in two opposite orders on one object; ClimateNetwork N=3; similarity estimators on T=3 x N=2 symbolic anomalies; "
              "recurrence objects on 3-sample caller arrays; Surrogates see C15",
    "assumptions": ["an array counts as modified if some cell's value can differ from its snapshot (solver query per cell); cells are "
                    "compared as exact reals", "methods documented as in-place (normalize_time_series_array, normalize_original_data, "
                    "normalize_time_series) are exempt when called directly"],
    "outside": ["objects Engine P cannot execute (netCDF loading, plotting, igraph-only measures)", "aliasing that never results in a write"],
}


def snapshot(a):
    a = a.d if isinstance(a, pe.SSparse) else a
    arr = np.asarray(a, dtype=object)
    return [x if isinstance(x, float) else (("C", pe.unwrap(x.re), pe.unwrap(x.im)) if isinstance(x, SC) else pe._num(x)) for x in arr.ravel()], arr.shape


def changed(snap, a):
    """list of 'cell differs' conditions between a snapshot and the current contents"""
    vals, shape = snap
    a = a.d if isinstance(a, pe.SSparse) else a
    arr = np.asarray(a, dtype=object)
    if arr.shape != shape:
        return [True]
    out = []
    for old, new in zip(vals, arr.ravel()):
        if isinstance(old, float) or isinstance(new, float):
            fo = isinstance(old, float) and (old != old or old in (float("inf"), float("-inf")))
            fn = isinstance(new, float) and (new != new or new in (float("inf"), float("-inf")))
            if fo or fn:
                same = (isinstance(old, float) and isinstance(new, float) and (old == new or (old != old and new != new)))
                if not same:
                    out.append(True)
                continue
            # a finite python float next to an exact value: compare numerically (representation, not content, differs)
            from fractions import Fraction
            if isinstance(old, float):
                old = Fraction(old)
            if isinstance(new, float):
                new = Fraction(new)
        n_ = pe._num(new)
        if isinstance(n_, pe._Inf) or isinstance(old, pe._Inf):
            if not (isinstance(n_, pe._Inf) and isinstance(old, pe._Inf) and n_.sign == old.sign):
                out.append(True)
            continue
        if isinstance(old, z3.ExprRef) and isinstance(n_, z3.ExprRef) and old.eq(n_):
            continue
        from .C02 import neq
        d = neq(old, n_)
        if d is not False:
            out.append(d)
    return out


def finish(name, hyps, harness, funcs, bound, sig, classes=(), max_paths=600, witfn=None):
    ex = Explorer(hyps, max_paths=max_paths)
    try:
        paths = ex.run(harness)
    except pe.Unsupported as e:
        return result(name, INCONCLUSIVE, reason=f"unsupported: {e}", functions=funcs, bound=bound)
    finally:
        for c in classes:
            pe.clear_caches(c)
    nq = 0
    found = {}
    for p in paths:
        for lab, conds in p.result:
            if lab in found:
                continue
            for b in conds:
                if b is True:
                    found[lab] = None
                    if witfn is not None:
                        v, m = Q.check(hyps + p.cond(), 20, tag=f"{name}|{lab}|model")
                        found[lab] = (core.normalised_model(hyps + p.cond(), 20) or m) if v == "sat" else None
                    break
                nq += 1
                v, m = Q.check(hyps + p.cond() + [b], 20, tag=f"{name}|{lab}")
                if v == "sat":
                    found[lab] = core.normalised_model(hyps + p.cond() + [b], 20) or m
                    break
    res = []
    for lab, m in found.items():
        res.append(result(f"{name}|{lab}", VIOLATED, functions=funcs, bound=bound, twin="sat", signature=f"{sig}|{lab}",
                          witness=dict({"kind": sig.split("|")[1], "label": lab}, **(witfn(m) if (witfn is not None and m is not None) else {}))))
    if ex.truncated:
        res.append(result(name, INCONCLUSIVE, reason="path cap", functions=funcs, bound=bound))
        return res
    res.append(result(name, HELD, functions=funcs, bound=bound, twin="sat", detail=f"{ex.paths} paths, {nq} cell queries" +
                      (f"; except {sorted(found)}" if found else "")))
    return res


# --------------------------------------------------------------------------------------------- Network family
def network_queries():
    from .C02 import registry
    qs = [(m, {}) for m, params in registry()]
    qs += [(m, {"key": "la"}) for m, params in registry() if "key" in params and m != "nsi_bildegree"]
    qs += [(m, {}) for m in ("degree", "indegree", "outdegree", "bildegree", "average_neighbors_degree", "max_neighbors_degree",
                             "local_cyclemotif_clustering", "local_midmotif_clustering", "local_inmotif_clustering",
                             "local_outmotif_clustering", "laplacian", "nsi_laplacian", "undirected_adjacency", "edge_list",
                             "path_lengths", "matching_index", "link_attribute")]
    # shortest-path measures on the link attribute (the memoised weighted path-length matrix is shared between them)
    la = [(m, {"link_attribute": "la"}) for m in ("path_lengths", "average_path_length", "closeness", "global_efficiency", "diameter",
                                                  "laplacian", "local_vulnerability")]
    # the memoisation key includes the call pattern: internal callers pass the attribute name positionally, users may do either
    pos = [(m, {"__pos__": ("la",)}) for m in ("path_lengths", "average_path_length", "closeness", "global_efficiency", "local_vulnerability")]
    tail = [("path_lengths", {"link_attribute": "la"}), ("average_path_length", {"link_attribute": "la"}),
            ("path_lengths", {"__pos__": ("la",)}), ("average_path_length", {"__pos__": ("la",)})]
    return qs + la + pos + tail


def invoke(net, meth, kw):
    kw = dict(kw)
    args = kw.pop("__pos__", ())
    return getattr(net, meth)(*args, **kw)


def ob_network_frame(name, G, reverse):
    from pyunicorn.core import network as netmod
    from pyunicorn.core.network import Network
    from .C02 import kernel_patches, call_measure
    funcs = ["src/pyunicorn/core/network.py Network.<all measures executable by Engine P>"]
    n = len(G)
    w = pe.sym(n, "w")
    hyps = [x.v > 0 for x in w]
    Wm = np.zeros((n, n), dtype=object)
    for i in range(n):
        for j in range(i + 1, n):
            Wm[i, j] = Wm[j, i] = SV(z3.Real(f"la_{i}_{j}"))
            hyps.append(Wm[i, j].v > 0)
    qs = network_queries()
    if reverse:
        qs = list(reversed(qs))

    def harness(ex):
        out = []
        with pe.patched([netmod], kernel_patches()):
            A, present = pnet.concrete_adjacency(G)
            net = pnet.make_network(Network, A, w, present, False, {"la": SymNd(Wm.copy())})
            base = {"sp_A": snapshot(net.sp_A), "node_weights": snapshot(net._node_weights)}
            results = []
            for meth, kw in qs:
                try:
                    if meth == "link_attribute":
                        r = net.link_attribute("la")
                    elif meth == "nsi_interregional_betweenness":
                        r = net.nsi_interregional_betweenness(sources=[0], targets=[n - 1])
                    else:
                        r = invoke(net, meth, kw)
                except (pe.Unsupported, NotImplementedError, AssertionError, ZeroDivisionError, ValueError, TypeError, KeyError, SystemError):
                    continue
                if isinstance(r, (np.ndarray, pe.SSparse)):
                    results.append((meth, kw, r, snapshot(r)))
                # frame: object state and every earlier result are what they were
                out.append((f"{meth}{sorted(kw)} modifies the adjacency", changed(base["sp_A"], net.sp_A)))
                out.append((f"{meth}{sorted(kw)} modifies the node weights", changed(base["node_weights"], net._node_weights)))
                earlier = results[:-1] if isinstance(r, (np.ndarray, pe.SSparse)) else results
                for idx, (m2, kw2, r2, s2) in enumerate(earlier):
                    c = changed(s2, r2)
                    if c:
                        out.append((f"{meth}{sorted(kw)} modifies the array returned earlier by {m2}{sorted(kw2)}", c))
                        results[idx] = (m2, kw2, r2, snapshot(r2))      # attribute a change to the query that made it, once
            # repeating a query returns an equal value
            for (m2, kw2, r2, s2) in results:
                try:
                    again = net.link_attribute("la") if m2 == "link_attribute" else (
                        net.nsi_interregional_betweenness(sources=[0], targets=[n - 1]) if m2 == "nsi_interregional_betweenness" else invoke(net, m2, kw2))
                except Exception:  # noqa
                    continue
                c = changed(s2, again)
                if c:
                    out.append((f"repeating {m2}{sorted(kw2)} returns a different value", c))
        return [(l, c) for l, c in out if c]
    def witfn(m):
        return {"G": G, "w": [sx.model_value(m, x.v) for x in w],
                "la": [[0 if i == j else sx.model_value(m, Wm[i, j].v) for j in range(n)] for i in range(n)]}
    return finish(name, hyps, harness, funcs, f"topology {G}, symbolic weights and link attribute, {len(qs)} queries in {'reverse' if reverse else 'registry'} order",
                  "C06|Network", (Network,), witfn=witfn)


def ob_interacting_frame(name, G):
    from pyunicorn.core import network as netmod, interacting_networks as im
    from pyunicorn.core.interacting_networks import InteractingNetworks
    from pyunicorn.core.network import Network
    from .C11_py import kernel_patches
    funcs = ["src/pyunicorn/core/interacting_networks.py InteractingNetworks.<path based and block measures>"]
    n = len(G)
    w = pe.sym(n, "w")
    hyps = [x.v > 0 for x in w]
    g1, g2 = list(range(n // 2)), list(range(n // 2, n))
    names = ["cross_closeness", "cross_average_path_length", "local_efficiency", "internal_closeness", "internal_average_path_length",
             "nsi_cross_closeness_centrality", "nsi_cross_average_path_length", "cross_degree", "cross_local_clustering",
             "nsi_cross_local_clustering", "nsi_cross_degree"]

    def harness(ex):
        out = []
        with pe.patched([netmod, im], kernel_patches()):
            A, present = pnet.concrete_adjacency(G)
            net = pnet.make_network(InteractingNetworks, A, w, present, False)
            pl = net.path_lengths()
            s_pl = snapshot(pl)
            s_A, s_w = snapshot(net.sp_A), snapshot(net._node_weights)
            for meth in names:
                try:
                    f = getattr(net, meth)
                    f(g1) if meth.startswith("internal") else f(g1, g2)
                except (pe.Unsupported, ZeroDivisionError, ValueError, TypeError, SystemError):
                    continue
                out.append((f"{meth} modifies the cached path lengths", changed(s_pl, net.path_lengths())))
                out.append((f"{meth} modifies the adjacency", changed(s_A, net.sp_A)))
                out.append((f"{meth} modifies the node weights", changed(s_w, net._node_weights)))
        return [(l, c) for l, c in out if c]
    return finish(name, hyps, harness, funcs, f"topology {G}, groups {g1} / {g2}", "C06|InteractingNetworks", (Network,))


def ob_climate_frame(name, N):
    from pyunicorn.climate import ClimateNetwork
    from pyunicorn.core.network import Network
    from .C09 import mods, patches, make_grid, sym_similarity
    funcs = ["src/pyunicorn/climate/climate_network.py ClimateNetwork.correlation_distance/inv_correlation_distance/similarity_measure/"
             "set_threshold"]
    S, hyps = sym_similarity(N, True, 1)
    for i in range(N):
        for j in range(i + 1, N):
            hyps += [S[i, j].v > 0, S[i, j].v < 1]
    theta = SV(z3.Real("theta"))

    def harness(ex):
        out = []
        with pe.patched(mods(), patches()):
            Sin = SymNd(S.copy())
            s_in = snapshot(Sin)
            net = ClimateNetwork(make_grid(N), Sin, threshold=theta, silence_level=3)
            out.append(("the constructor modifies the caller's similarity matrix", changed(s_in, Sin)))
            cd = net.correlation_distance()
            s_cd = snapshot(cd)
            s_sim = snapshot(net.similarity_measure())
            net.inv_correlation_distance()
            out.append(("inv_correlation_distance modifies the memoised correlation_distance", changed(s_cd, net.correlation_distance())))
            out.append(("inv_correlation_distance modifies the similarity measure", changed(s_sim, net.similarity_measure())))
        return [(l, c) for l, c in out if c]
    return finish(name, hyps, harness, funcs, f"N={N}, symbolic symmetric similarity in (0,1), symbolic threshold", "C06|ClimateNetwork", (Network,))


def ob_similarity_input(name, cls_name):
    """calculate_similarity_measure(anomaly) must not alter the caller's anomaly array (it is the shared ClimateData's cached one)"""
    import importlib
    modname = {"MutualInfoClimateNetwork": "pyunicorn.climate.mutual_info"}[cls_name]
    mod = importlib.import_module(modname)
    cls = getattr(mod, cls_name)
    from pyunicorn.core import data as datamod
    funcs = [f"src/{modname.replace('.', '/')}.py {cls_name}.calculate_similarity_measure/_cython_calculate_mutual_information",
             "src/pyunicorn/core/data.py Data.normalize_time_series_array"]
    T, N = 3, 2
    an = np.empty((T, N), dtype=object)
    for i in range(T):
        for j in range(N):
            an[i, j] = SV(z3.Real(f"an_{i}_{j}"))
    hyps = [an[0, j].v != an[1, j].v for j in range(N)]

    def stub_mi(anomaly, n_samples, N_, n_bins, scaling, range_min):
        exx = pe.current()
        out = np.empty((N_, N_), dtype=object)
        for i in range(N_):
            for j in range(N_):
                out[i, j] = SV(exx.fresh("real", "mi"))
        return SymNd(out)

    def harness(ex):
        out = []
        with pe.patched([mod, datamod], {modname: {"mutual_information": stub_mi}}):
            obj = object.__new__(cls)
            obj.silence_level = 3
            obj.data = datamod.Data
            A = SymNd(an.copy())
            snap = snapshot(A)
            obj.calculate_similarity_measure(A)
            out.append(("calculate_similarity_measure modifies the anomaly array it is given", changed(snap, A)))
        return [(l, c) for l, c in out if c]
    return finish(name, hyps, harness, funcs, f"{T} x {N} symbolic anomalies; the C kernel is an uninterpreted stub", f"C06|{cls_name}")


def ob_recurrence_input(name, normalize):
    from pyunicorn.timeseries import RecurrencePlot, CrossRecurrencePlot, JointRecurrencePlot
    from pyunicorn.core.network import Network
    from .C07 import ts_mods, ts_patches, sym_series
    funcs = ["src/pyunicorn/timeseries/recurrence_plot.py RecurrencePlot.__init__/normalize_time_series",
             "src/pyunicorn/timeseries/cross_recurrence_plot.py CrossRecurrencePlot.__init__",
             "src/pyunicorn/timeseries/joint_recurrence_plot.py JointRecurrencePlot.__init__"]
    x, y = sym_series(3, "x"), sym_series(3, "y")
    eps = SV(z3.Real("eps"))
    hyps = [eps.v > 0, x[0].v != x[1].v, y[0].v != y[1].v]

    def harness(ex):
        out = []
        with pe.patched(ts_mods(), ts_patches()):
            X, Y = SymNd(np.array(list(x), dtype=object)), SymNd(np.array(list(y), dtype=object))
            sx_, sy_ = snapshot(X), snapshot(Y)
            RecurrencePlot(X, threshold=eps, normalize=normalize, silence_level=3)
            out.append((f"RecurrencePlot(normalize={normalize}) modifies the caller's series", changed(sx_, X)))
            CrossRecurrencePlot(X, Y, threshold=eps, normalize=normalize, silence_level=3)
            out.append((f"CrossRecurrencePlot(normalize={normalize}) modifies the caller's series", changed(sx_, X) + changed(sy_, Y)))
            JointRecurrencePlot(X, Y, threshold=(eps, eps), normalize=normalize, silence_level=3)
            out.append((f"JointRecurrencePlot(normalize={normalize}) modifies the caller's series", changed(sx_, X) + changed(sy_, Y)))
        return [(l, c) for l, c in out if c]
    return finish(name, hyps, harness, funcs, f"3-sample symbolic series, normalize={normalize}", "C06|recurrence-constructors", (Network,))


def prepare(tier):
    return {"validated": 0, "validation": []}


def obligations(tier):
    from . import gk
    th = tier == "thorough"
    obs = []
    graphs = [[[0, 1, 1, 0], [1, 0, 1, 0], [1, 1, 0, 1], [0, 0, 1, 0]], [[0, 1, 0, 0], [1, 0, 0, 0], [0, 0, 0, 1], [0, 0, 1, 0]],
              [[0, 1, 1], [1, 0, 1], [1, 1, 0]]]
    if th:
        graphs += [G for G in gk.all_graphs(4)][5:60:6]
    for k, G in enumerate(graphs):
        for rev in (False, True):
            obs.append((ob_network_frame, dict(name=f"C06|Network|frame|graph#{k}|{'reverse' if rev else 'forward'}", G=G, reverse=rev), 2400))
        obs.append((ob_interacting_frame, dict(name=f"C06|InteractingNetworks|frame|graph#{k}", G=G), 1200))
    obs.append((ob_climate_frame, dict(name="C06|ClimateNetwork|frame|N=3", N=3), 1200))
    obs.append((ob_similarity_input, dict(name="C06|MutualInfoClimateNetwork|calculate_similarity_measure", cls_name="MutualInfoClimateNetwork"), 600))
    for nz in (False, True):
        obs.append((ob_recurrence_input, dict(name=f"C06|recurrence constructors|normalize={nz}", normalize=nz), 1200))
    return obs


def replay(w):
    lab = w["label"]
    kind = w["kind"]
    rng = np.random.default_rng(3)
    if kind == "ClimateNetwork":
        from pyunicorn.climate import ClimateNetwork
        cn = ClimateNetwork.SmallTestNetwork()
        cn.silence_level = 3
        c0 = cn.correlation_distance().copy()
        s0 = cn.similarity_measure().copy()
        cn.inv_correlation_distance()
        if "correlation_distance" in lab:
            return (not np.array_equal(c0, cn.correlation_distance())), f"correlation_distance() diagonal before {np.diag(c0)[:3].tolist()} after inv_correlation_distance(): {np.diag(cn.correlation_distance())[:3].tolist()}"
        return (not np.array_equal(s0, cn.similarity_measure())), "similarity measure changed"
    if kind == "MutualInfoClimateNetwork":
        from pyunicorn.climate import ClimateData, MutualInfoClimateNetwork
        from pyunicorn.core import GeoGrid
        T, N = 48, 4
        grid = GeoGrid(np.arange(T), np.linspace(0, 40, N), np.linspace(0, 50, N), 2)
        d = ClimateData(rng.random((T, N)) * 3 + 5, grid, time_cycle=12, silence_level=3)
        a0 = d.anomaly().copy()
        MutualInfoClimateNetwork(d, threshold=0.5, winter_only=False, silence_level=3)
        return (not np.allclose(a0, d.anomaly())), (f"ClimateData.anomaly() std per node before {a0.std(axis=0).round(3).tolist()} and after constructing a "
                                                    f"MutualInfoClimateNetwork from the data: {d.anomaly().std(axis=0).round(3).tolist()}")
    if kind == "recurrence-constructors":
        from pyunicorn.timeseries import RecurrencePlot, CrossRecurrencePlot, JointRecurrencePlot
        nz = "normalize=True" in lab
        x, y = rng.random(8) * 3, rng.random(8) * 2
        x0, y0 = x.copy(), y.copy()
        if lab.startswith("RecurrencePlot"):
            RecurrencePlot(x, threshold=0.5, normalize=nz, silence_level=3)
        elif lab.startswith("CrossRecurrencePlot"):
            CrossRecurrencePlot(x, y, threshold=0.5, normalize=nz, silence_level=3)
        else:
            JointRecurrencePlot(x, y, threshold=(0.5, 0.5), normalize=nz, silence_level=3)
        return (not (np.array_equal(x, x0) and np.array_equal(y, y0))), f"{lab}: x {x0[:3].round(3).tolist()} -> {x[:3].round(3).tolist()}"
    if kind in ("Network", "InteractingNetworks"):
        from pyunicorn.core import Network, InteractingNetworks
        import re
        if "G" in w:
            f = core.to_float
            net = Network(adjacency=np.array(w["G"]), node_weights=np.array(f(w["w"]), dtype=float), silence_level=3)
            net.set_link_attribute("la", np.array(f(w["la"]), dtype=float))
        else:
            net = InteractingNetworks.SmallTestNetwork()
            net.silence_level = 3
            W = np.arange(36, dtype=float).reshape(6, 6) % 5 + 1
            net.set_link_attribute("la", W + W.T)
        m = re.match(r"(repeating )?(\w+)\[(.*?)\]", lab)
        if not m:
            return False, "unparsed label"
        meth = m.group(2)
        kwof = lambda t: {"key": "la"} if "key" in t else ({"link_attribute": "la"} if "link_attribute" in t else ({"__pos__": ("la",)} if "__pos__" in t else {}))
        kw = kwof(m.group(3))
        call = lambda name, kw_: (getattr(net, name)([0, 1, 2]) if name.startswith("internal") else getattr(net, name)([0, 1, 2], [3, 4, 5])) \
            if (name.startswith(("cross_", "internal_", "nsi_cross", "local_efficiency")) and hasattr(InteractingNetworks, name) and not hasattr(Network, name)) \
            else invoke(net, name, kw_)
        if m.group(1):
            a = np.array(call(meth, kw), dtype=float).copy()
            b = np.array(call(meth, kw), dtype=float)
            return (not np.allclose(a, b, equal_nan=True)), f"{meth} twice: {a} vs {b}"
        m2 = re.search(r"returned earlier by (\w+)\[(.*?)\]", lab)
        A0, w0, pl0 = net.adjacency.copy(), net.node_weights.copy(), net.path_lengths().copy()
        first = None
        if m2:
            kw2 = kwof(m2.group(2))
            first = call(m2.group(1), kw2)
            f0 = np.array(first, dtype=float).copy()
        call(meth, kw)
        if m2:
            return (not np.allclose(f0, np.array(first, dtype=float), equal_nan=True)), f"{lab}: {f0} -> {np.array(first, dtype=float)}"
        bad = not (np.array_equal(A0, net.adjacency) and np.array_equal(w0, net.node_weights) and np.array_equal(pl0, net.path_lengths()))
        return bad, lab
    return False, "unknown witness kind"
