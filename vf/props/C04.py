"""C04 — measures do not depend on node numbering (K part; P part in C04_py).

Invariance under the n-1 adjacent transpositions for fully symbolic inputs implies invariance under every
permutation (the claim is universally quantified over inputs, transpositions compose)."""
from .. import core, kern
from . import gk

PROP = "C04"
META = {
    "bounds": "kernels under each adjacent transposition: cliquishness-4 all graphs n<=5 (6 thorough), cliquishness-5 n<=6, cross kernels all graphs "
              "n<=4 with all list pairs, n.s.i. betweenness kernel all 64 graphs n=4 (1024 n=5 thorough) with real weights",
    "assumptions": ["exact real arithmetic"],
    "outside": ["measures forwarded to igraph and ARPACK"],
}


def prepare(tier):
    notes = []
    ok = gk.validate(notes, ("cliq", "cross"))
    out = {"validated": ok, "validation": notes, "source": {"core/_ext/numerics.pyx": kern.module("core").sha}}
    try:
        from . import C04_py
        extra = C04_py.prepare(tier)
        out["validated"] += extra.get("validated", 0)
        out["validation"] += extra.get("validation", [])
    except ImportError:
        pass
    return out


def obligations(tier):
    th = tier == "thorough"
    obs = []
    for n in ((4, 5) if not th else (4, 5, 6)):
        for k in range(n - 1):
            obs.append((gk.ob_cliquishness_perm, dict(name=f"C04|cliquishness4|n={n}|swap({k},{k + 1})", prop=PROP, order=4, n=n, k=k), 3000))
    for n in ((5, 6) if not th else (5, 6)):
        for k in range(n - 1):
            obs.append((gk.ob_cliquishness_perm, dict(name=f"C04|cliquishness5|n={n}|swap({k},{k + 1})", prop=PROP, order=5, n=n, k=k), 3000))
    for n in (3, 4):
        pairs = gk.disjoint_pairs(n)
        for k in range(n - 1):
            for ci in range(0, len(pairs), 10):
                obs.append((gk.ob_cross_perm, dict(name=f"C04|cross kernels|n={n}|swap({k},{k + 1})|pairs#{ci // 10}", prop=PROP, n=n,
                                                   pairs=pairs[ci:ci + 10], k=k), 1500))
    for n in ((3, 4) if not th else (3, 4, 5)):
        graphs = list(gk.all_graphs(n))
        step = 32 if n <= 4 else 128
        for k in range(n - 1):
            for ci in range(0, len(graphs), step):
                obs.append((gk.ob_nsi_betw_perm, dict(name=f"C04|_nsi_betweenness|n={n}|swap({k},{k + 1})|graphs#{ci // step}", prop=PROP,
                                                      n=n, graphs=graphs[ci:ci + step], k=k), 1500))
    try:
        from . import C04_py
        obs.extend(C04_py.obligations(tier))
    except ImportError:
        pass
    return obs


def replay(w):
    if w.get("kind", "").startswith("py:"):
        from . import C04_py
        return C04_py.replay(w)
    return gk.replay(w)
