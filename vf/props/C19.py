"""C19 — distributed computation returns the serial result (K part: chunk kernels; master blocks/protocol in C19_py)."""
from .. import core, kern
from . import gk

PROP = "C19"
META = {
    "bounds": "chunk kernels: all graphs n<=4 (5 thorough) with every contiguous chunk [s,e); target-split additivity of the "
              "n.s.i. betweenness kernel: all 64 graphs n=4 (all 1024 n=5 thorough); master blocks: see C19_py obligations",
    "assumptions": ["exact real arithmetic", "real MPI transport, pickling and process start-up are outside (stubs)"],
    "outside": ["real MPI", "multiprocessing 'spawn' semantics"],
}


def prepare(tier):
    notes = []
    ok = gk.validate(notes, ("newman",))
    out = {"validated": ok, "validation": notes, "source": {"core/_ext/numerics.pyx": kern.module("core").sha}}
    try:
        from . import C19_py
        extra = C19_py.prepare(tier)
        out["validated"] += extra.get("validated", 0)
        out["validation"] += extra.get("validation", [])
    except ImportError:
        pass
    return out


def obligations(tier):
    th = tier == "thorough"
    obs = []
    for n in ((2, 3, 4) if not th else (2, 3, 4, 5)):
        obs.append((gk.ob_newman_chunks, dict(name=f"C19|_mpi_newman_betweenness|chunks|n={n}", prop=PROP, n=n, nsi=False), 2400))
    for n in ((2, 3) if not th else (2, 3, 4)):
        obs.append((gk.ob_newman_chunks, dict(name=f"C19|_mpi_nsi_newman_betweenness|chunks|n={n}", prop=PROP, n=n, nsi=True), 2400))
    for n in ((3, 4) if not th else (3, 4, 5)):
        graphs = list(gk.all_graphs(n))
        step = 16 if n <= 4 else 64
        for ci in range(0, len(graphs), step):
            obs.append((gk.ob_nsi_betw_additive, dict(name=f"C19|_nsi_betweenness|target-split|n={n}|graphs#{ci // step}",
                                                     prop=PROP, n=n, graphs=graphs[ci:ci + step]), 1800))
    try:
        from . import C19_py
        obs.extend(C19_py.obligations(tier))
    except ImportError:
        pass
    return obs


def replay(w):
    if w.get("kind", "").startswith("py:"):
        from . import C19_py
        return C19_py.replay(w)
    return gk.replay(w)
