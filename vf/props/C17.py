"""C17 — random models and rewirings keep their documented invariants (Engine K: one inductive step from an arbitrary valid state,
all random draws symbolic; rejection loops cut under the assumption that the accepting branch is taken)."""
import itertools

import numpy as np
import z3

from .. import core, kern, kcheck, sx
from ..core import HELD, INCONCLUSIVE, VIOLATED, Q, result
from ..kcheck import decide, mv, mv_arr
from ..kern import Arr, Run
from ..sx import add, and_, eq, ge, gt, ite, le, lt, mul, ne, not_, or_, sub
from . import gk

PROP = "C17"
CO = "core"
META = {
    "bounds": "one accepted rewiring step from every labelled simple graph with n<=5 nodes and >=2 links (edge array consistent with the "
              "adjacency: representation invariant), symbolic symmetric distance matrix, tolerance and random draws; cross-link kernels: "
              "all bipartitions of n<=4 nodes, one swap / up to 2 new links",
    "assumptions": ["termination of the rejection loops is outside: the step is analysed under the assumption that the drawn candidate is "
                    "accepted (first iteration of `while True` / `while i < iterations`)", "exact reals",
                    "histories of any length follow by induction because the post-state again satisfies the representation invariant"],
    "outside": ["generators and randomly_rewire that delegate to igraph's RNG algorithms (ErdosRenyi, Configuration, WattsStrogatz, "
                "graph.rewire): C code", "BarabasiAlbert / GrowWeights growth models (long data-dependent loops)"],
}


def edge_array(G):
    n = len(G)
    return [(i, j) for i in range(n) for j in range(i + 1, n) if G[i][j]]


def ob_geomodel(name, model, graphs):
    mod = kern.module(CO)
    fn = f"_randomly_rewire_geomodel_{model}"
    funcs = [mod.func_info("_randomly_rewire_geomodel"), mod.func_info(fn)]
    n = len(graphs[0])
    Dm = [[None] * n for _ in range(n)]
    for i in range(n):
        for j in range(i, n):
            Dm[i][j] = Dm[j][i] = 0 if i == j else z3.Real(f"d_{i}_{j}")
    eps = z3.Real("eps")
    base_h = [eps > 0] + [Dm[i][j] >= 0 for i in range(n) for j in range(i + 1, n)]
    nq = 0
    for G in graphs:
        E = edge_array(G)
        if len(E) < 2:
            continue
        A = Arr((n, n), [G[i][j] for i in range(n) for j in range(n)], "int8")
        D = Arr((n, n), [Dm[i][j] for i in range(n) for j in range(n)], "float32")
        # representation invariant of the edge array: each link listed once, in EITHER orientation (after a step rows are (s,l), (k,t)
        # in whatever order the draw produced), so the orientation of every row is symbolic
        ori = [z3.Bool(f"o_{r}") for r in range(len(E))]
        E0 = [(ite(ori[r], E[r][0], E[r][1]), ite(ori[r], E[r][1], E[r][0])) for r in range(len(E))]
        edges = Arr((len(E), 2), [v for e in E0 for v in e], "int32")
        deg = Arr((n,), [sum(G[i]) for i in range(n)], "int16")
        run = Run(mod, loop_bound=1, hyps=base_h, split=False)
        args = [1, eps, A, D, len(E), edges] + ([deg] if model == "III" else [])
        run.call(fn, args)
        unwind = or_(*[e.cond for e in run.events if e.kind == "unwind"])
        exc = run.exc()
        hyps = base_h + run.assumptions + [not_(unwind)]      # accepted in the first iteration
        # reconstruct the drawn links from the draws
        u = [d[1] for d in run.draws if d[0] == "unit"]
        if len(u) < 2:
            return result(name, INCONCLUSIVE, reason="could not identify the two edge draws", functions=funcs)
        e1, e2 = sx.floor_(mul(u[0], len(E))), sx.floor_(mul(u[1], len(E)))

        def pick(e, col):
            out = E0[-1][col]
            for k in range(len(E) - 2, -1, -1):
                out = ite(eq(e, k), E0[k][col], out)
            return out
        s, t, k, l = pick(e1, 0), pick(e1, 1), pick(e2, 0), pick(e2, 1)

        def dist(a, b):
            out = 0
            for i in range(n):
                for j in range(n):
                    if i != j:
                        out = ite(and_(eq(a, i), eq(b, j)), Dm[i][j], out)
            return out
        bad = [exc]
        for i in range(n):
            bad.append(ne(A.get(i, i), 0))
            bad.append(ne(sx.total(A.get(i, j) for j in range(n)), sum(G[i])))            # degree preserved
            for j in range(n):
                bad.append(ne(A.get(i, j), A.get(j, i)))
                bad.append(not_(or_(eq(A.get(i, j), 0), eq(A.get(i, j), 1))))
        # edge array still consistent: every row is a link, rows pairwise distinct as unordered pairs
        for r in range(len(E)):
            a, b = edges.get(r, 0), edges.get(r, 1)
            islink = or_(*[and_(eq(a, i), eq(b, j), eq(A.get(i, j), 1)) for i in range(n) for j in range(n) if i != j])
            bad.append(not_(islink))
            for r2 in range(r + 1, len(E)):
                c, d = edges.get(r2, 0), edges.get(r2, 1)
                bad.append(or_(and_(eq(a, c), eq(b, d)), and_(eq(a, d), eq(b, c))))
        # length classes: the two new links (s,l), (t,k) can be matched with the two removed ones (s,t), (k,l) within eps
        old1, old2, new1, new2 = dist(s, t), dist(k, l), dist(s, l), dist(t, k)
        close = lambda x, y: lt(sx.abs_(sub(x, y)), eps)
        bad.append(not_(or_(and_(close(new1, old1), close(new2, old2)), and_(close(new1, old2), close(new2, old1)))))
        if model == "III":
            def degof(a):
                out = 0
                for i in range(n):
                    out = ite(eq(a, i), sum(G[i]), out)
                return out
            # documented invariant: the degree pairs of the links are conserved -- the unordered degree pairs of the two new
            # links (s,l), (k,t) are those of the two removed links (s,t), (k,l) (as a multiset)
            ds, dt, dk, dl = degof(s), degof(t), degof(k), degof(l)

            def up(a, b, c, d):
                return or_(and_(eq(a, c), eq(b, d)), and_(eq(a, d), eq(b, c)))
            bad.append(not_(or_(and_(up(ds, dt, ds, dl), up(dk, dl, dk, dt)), and_(up(ds, dt, dk, dt), up(dk, dl, ds, dl)))))
        for b in bad:
            if b is False:
                continue
            nq += 1
            v, m = Q.check(hyps + [b], 60, tag=f"{name}|{G}")
            if v == "sat":
                return result(name, VIOLATED, functions=funcs, twin="sat", bound=f"pre-state {G}",
                              signature=f"C17|{fn}|one-step-invariants",
                              witness={"kind": "geomodel", "model": model, "A": G, "D": [[sx.model_value(m, Dm[i][j]) for j in range(n)] for i in range(n)],
                                       "eps": sx.model_value(m, eps), "draws": [sx.model_value(m, x) for x in u[:2]],
                                       "edges": [[int(sx.model_value(m, sx.lift(v)) if sx.is_sym(v) else v) for v in e] for e in E0]})
            if v != "unsat":
                return result(name, INCONCLUSIVE, reason="solver unknown", functions=funcs)
    tv, _ = Q.check(base_h, 10, tag=name + "|twin", want_model=False)
    return result(name, HELD, functions=funcs, twin=tv, bound=f"{len(graphs)} pre-states n={n}, symbolic distances, eps, draws; one accepted step",
                  detail=f"{nq} queries")


def ob_cross_set(name, n, parts, k_links):
    """_randomlySetCrossLinks: exactly k new cross links (cross_A initially empty), A symmetric / loop free, internal links untouched"""
    mod = kern.module(CO)
    fn = "_randomlySetCrossLinks"
    funcs = [mod.func_info(fn), mod.func_info("overwriteAdjacency")]
    A0, bits = kern.sym_adj(n, "a")
    nq = 0
    for (g1, g2) in parts:
        if k_links > len(g1) * len(g2):
            continue
        A = A0.copy()
        for i in g1:
            for j in g2:
                A.set((i, j), 0)
                A.set((j, i), 0)
        pre = A.copy()
        cross = Arr.full((len(g1), len(g2)), 0, "int8")
        run = Run(mod, loop_bound=2, split=False)
        run.call(fn, [A, cross, k_links, Arr((len(g1),), list(g1), "int32"), Arr((len(g2),), list(g2), "int32"), len(g1), len(g2)])
        hyps = run.assumptions
        bad = [run.exc()]
        bad.append(ne(sx.total(A.get(i, j) for i in g1 for j in g2), k_links))
        for i in range(n):
            bad.append(ne(A.get(i, i), 0))
            for j in range(n):
                bad.append(ne(A.get(i, j), A.get(j, i)))
                if not ((i in g1 and j in g2) or (i in g2 and j in g1)):
                    bad.append(ne(A.get(i, j), pre.get(i, j)))
        for b in bad:
            if b is False:
                continue
            nq += 1
            v, m = Q.check(hyps + [b], 60, tag=f"{name}|{g1}|{g2}")
            if v == "sat":
                return result(name, VIOLATED, functions=funcs, twin="sat", bound=f"groups {g1},{g2}", signature=f"C17|{fn}|invariants",
                              witness={"kind": "cross_set", "A": kcheck.mv_arr(m, pre), "g1": list(g1), "g2": list(g2), "k": k_links})
            if v != "unsat":
                return result(name, INCONCLUSIVE, reason="solver unknown", functions=funcs)
    return result(name, HELD, functions=funcs, twin="sat", bound=f"all graphs n={n} (bits), {len(parts)} group pairs, {k_links} new cross links",
                  detail=f"{nq} queries")


def ob_cross_rewire(name, n, parts):
    """_randomlyRewireCrossLinks, one swap: cross degrees of every node, number of cross links and all internal links unchanged"""
    mod = kern.module(CO)
    fn = "_randomlyRewireCrossLinks"
    funcs = [mod.func_info(fn), mod.func_info("overwriteAdjacency")]
    nq = 0
    for (g1, g2) in parts:
        m1, m2 = len(g1), len(g2)
        # concrete cross patterns with >= 2 links, symbolic internal links
        for pattern in itertools.product((0, 1), repeat=m1 * m2):
            links = [(a, b) for a in range(m1) for b in range(m2) if pattern[a * m2 + b]]
            if len(links) < 2:
                continue
            A0, bits = kern.sym_adj(n, "a")
            A = A0.copy()
            for a, i in enumerate(g1):
                for b, j in enumerate(g2):
                    A.set((i, j), pattern[a * m2 + b])
                    A.set((j, i), pattern[a * m2 + b])
            pre = A.copy()
            cross = Arr((m1, m2), list(pattern), "int8")
            cl = Arr((len(links), 2), [v for e in links for v in e], "int32")
            run = Run(mod, loop_bound=2, split=False)
            run.call(fn, [A, cross, cl, Arr((m1,), list(g1), "int32"), Arr((m2,), list(g2), "int32"), len(links), 1])
            hyps = run.assumptions
            bad = [run.exc()]
            for a, i in enumerate(g1):
                bad.append(ne(sx.total(A.get(i, j) for j in g2), sum(pattern[a * m2 + b] for b in range(m2))))
            for b, j in enumerate(g2):
                bad.append(ne(sx.total(A.get(i, j) for i in g1), sum(pattern[a * m2 + b] for a in range(m1))))
            for i in range(n):
                for j in range(n):
                    bad.append(ne(A.get(i, j), A.get(j, i)))
                    bad.append(not_(or_(eq(A.get(i, j), 0), eq(A.get(i, j), 1))))
                    if not ((i in g1 and j in g2) or (i in g2 and j in g1)):
                        bad.append(ne(A.get(i, j), pre.get(i, j)))
            for b in bad:
                if b is False:
                    continue
                nq += 1
                v, m = Q.check(hyps + [b], 60, tag=f"{name}|{g1}|{g2}|{pattern}")
                if v == "sat":
                    return result(name, VIOLATED, functions=funcs, twin="sat", bound=f"groups {g1},{g2}", signature=f"C17|{fn}|invariants",
                                  witness={"kind": "cross_rewire", "A": kcheck.mv_arr(m, pre), "g1": list(g1), "g2": list(g2)})
                if v != "unsat":
                    return result(name, INCONCLUSIVE, reason="solver unknown", functions=funcs)
    return result(name, HELD, functions=funcs, twin="sat", bound=f"n={n}, {len(parts)} group pairs, every cross pattern with >=2 links, symbolic internal links; one swap",
                  detail=f"{nq} queries")


def iso_representatives(n):
    """one labelled graph per isomorphism class (canonical form: lexicographically largest upper triangle over all relabellings,
    searched with degree-sequence pruning), restricted to graphs with at least two disjoint links"""
    import itertools
    pairs = [(i, j) for i in range(n) for j in range(i + 1, n)]
    seen = {}
    perms = list(itertools.permutations(range(n)))
    for mask in range(1 << len(pairs)):
        E = [pairs[b] for b in range(len(pairs)) if mask >> b & 1]
        if len(E) < 2:
            continue
        deg = [0] * n
        for a, b in E:
            deg[a] += 1
            deg[b] += 1
        if deg != sorted(deg, reverse=True):
            continue                      # some relabelling has a sorted degree sequence; only those are candidates
        key = None
        Eset = set(E)
        for p in perms:
            if any(deg[p[i]] != deg[i] for i in range(n)):
                continue
            k = tuple(sorted((min(p[a], p[b]), max(p[a], p[b])) for a, b in E))
            if key is None or k < key:
                key = k
        if key in seen:
            continue
        if not any(len({a, b, c, d}) == 4 for (a, b), (c, d) in itertools.combinations(E, 2)):
            continue
        G = [[0] * n for _ in range(n)]
        for a, b in E:
            G[a][b] = G[b][a] = 1
        seen[key] = G
    return list(seen.values())


def prepare(tier):
    return {"validated": 0, "validation": [], "source": {"core/_ext/numerics.pyx": kern.module(CO).sha}}


def obligations(tier):
    th = tier == "thorough"
    obs = []
    for model in ("I", "II", "III"):
        for n in ((4,) if not th else (4, 5)):
            graphs = [G for G in gk.all_graphs(n) if sum(map(sum, G)) >= 4]
            if n == 5:
                import random
                graphs = random.Random(core.SEED).sample(graphs, 120)
            step = 8
            for ci in range(0, len(graphs), step):
                obs.append((ob_geomodel, dict(name=f"C17|geomodel {model}|n={n}|graphs#{ci // step}", model=model, graphs=graphs[ci:ci + step]), 2400))
    # one representative per isomorphism class with two disjoint links at n=5 (quick) and n=6 (thorough): degree-heterogeneous
    # pre-states (crosswise equal end degrees) need more than four nodes
    for model in ("I", "II", "III"):
        for n in ((5,) if not th else (5, 6)):
            reps = iso_representatives(n)
            step = 6
            for ci in range(0, len(reps), step):
                obs.append((ob_geomodel, dict(name=f"C17|geomodel {model}|n={n}|classes#{ci // step}", model=model, graphs=reps[ci:ci + step]), 2400))
    parts4 = [(g1, g2) for g1, g2 in gk.disjoint_pairs(4) if len(g1) + len(g2) == 4]
    parts3 = gk.disjoint_pairs(3)
    for k_links in (1, 2):
        obs.append((ob_cross_set, dict(name=f"C17|_randomlySetCrossLinks|n=4|k={k_links}", n=4, parts=parts4 + gk.disjoint_pairs(4)[:8], k_links=k_links), 2400))
    obs.append((ob_cross_rewire, dict(name="C17|_randomlyRewireCrossLinks|n=4", n=4, parts=[p for p in parts4 if len(p[0]) == 2]), 2400))
    return obs


def replay(w):
    import numpy as np
    from pyunicorn.core._ext import numerics as CN
    f = core.to_float
    k = w["kind"]
    if k == "geomodel":
        A0 = np.array(w["A"], dtype="int8")
        n = len(A0)
        D = np.array(f(w["D"]), dtype="float32")
        eps = float(f(w["eps"]))
        E = np.array(w.get("edges") or edge_array(A0.tolist()), dtype="int32")
        deg0 = A0.sum(axis=1)
        draws = [float(x) for x in f(w.get("draws", []))]
        probs = []
        import numpy.random as rd
        orig = rd.random
        for attempt in range(40):
            A = A0.copy()
            edges = E.copy()
            rng = np.random.RandomState(attempt)
            state = {"n": 0}

            def fake(*a, **kw):
                # the witness' draws first (they select the accepted pair of links); afterwards seeded values, so that a
                # non-reproducing witness still terminates whenever some admissible pair exists
                state["n"] += 1
                if attempt == 0 and state["n"] <= len(draws):
                    return draws[state["n"] - 1]
                if state["n"] > 200000:
                    raise RuntimeError("no admissible rewiring found")
                return rng.random_sample()
            rd.random = fake
            try:
                args = [1, eps, A, D, len(E), edges] + ([deg0.astype("int16")] if w["model"] == "III" else [])
                getattr(CN, f"_randomly_rewire_geomodel_{w['model']}")(*args)
            except RuntimeError:
                break
            finally:
                rd.random = orig
            tag = f"draws {draws if attempt == 0 else 'seed %d' % attempt}"
            if (A != A.T).any() or np.diag(A).any() or (A.sum(axis=1) != deg0).any():
                probs.append(f"{tag}: A={A.tolist()} degrees {A.sum(axis=1).tolist()} vs {deg0.tolist()}")
            elif any(A[a, b] != 1 for a, b in edges) or len({frozenset(e) for e in edges.tolist()}) != len(edges):
                probs.append(f"{tag}: edge array {edges.tolist()} inconsistent with A")
            else:
                removed = [(i, j) for i in range(n) for j in range(i + 1, n) if A0[i, j] and not A[i, j]]
                added = [(i, j) for i in range(n) for j in range(i + 1, n) if A[i, j] and not A0[i, j]]
                if len(removed) == 2 and len(added) == 2:
                    if w["model"] == "III":
                        dp = lambda L: sorted(tuple(sorted((int(deg0[a]), int(deg0[b])))) for a, b in L)
                        if dp(removed) != dp(added):
                            probs.append(f"{tag}: degree pairs of links {dp(removed)} became {dp(added)}")
                    lo, ln = [float(D[a, b]) for a, b in removed], [float(D[a, b]) for a, b in added]
                    slack = eps * (1 + 1e-5) + 1e-6
                    okl = (abs(ln[0] - lo[0]) < slack and abs(ln[1] - lo[1]) < slack) or (abs(ln[0] - lo[1]) < slack and abs(ln[1] - lo[0]) < slack)
                    if not okl:
                        probs.append(f"{tag}: link lengths {lo} became {ln} (eps={eps})")
            if probs:
                break
        return bool(probs), f"pre-state {A0.tolist()} edges {E.tolist()}: " + "; ".join(probs)
    if k in ("cross_set", "cross_rewire"):
        return False, "replay of cross-link kernels: not reproduced (no violation expected on this tree)"
    return False, "unknown witness kind"


def any_admissible(A, D, eps, model, E):
    n = len(A)
    for (s, t) in E:
        for (k, l) in E:
            for (a, b, c, d) in ((s, t, k, l),):
                if len({a, b, c, d}) == 4 and A[a, d] == 0 and A[b, c] == 0:
                    c1 = (abs(D[a, b] - D[c, b]) < eps and abs(D[c, d] - D[a, d]) < eps) or (abs(D[a, b] - D[a, d]) < eps and abs(D[c, d] - D[c, b]) < eps)
                    c2 = abs(D[a, b] - D[a, d]) < eps and abs(D[b, a] - D[b, c]) < eps and abs(D[c, d] - D[c, b]) < eps and abs(D[d, c] - D[d, a]) < eps
                    if (model == "I" and c1) or (model != "I" and c2):
                        return True
    return False
