"""C01 — results always reflect the object's current state (cache coherence).  Engine H + real-object replay."""
import inspect
import json
import os
import random

import numpy as np

from .. import core, heng
from ..core import HELD, INCONCLUSIVE, VIOLATED, Q, result

PROP = "C01"
META = {
    "bounds": "every class below Cached with a fixture; per cached method and argument pattern {defaults, key=<link attribute>, "
              "typical_weight}: all mutator sequences of length <=1 (quick) / <=2 (thorough) between two queries, replayed with "
              "every single mutator (or none) applied before the first query",
    "assumptions": [
        "effect summaries are extracted from the current sources by abstract interpretation of the AST with the real MRO "
        "(reads/writes of self attributes, counter updates, inlined self./Class. calls and property setters); read sets are "
        "over-approximated, therefore every sat is only a candidate and is replayed on real objects",
        "replay oracle: a twin object built the same way with the same mutators applied and its caches cleared before the query",
    ],
    "outside": ["cache_clear, LRU eviction", "attribute pokes that bypass public mutators", "state hidden in foreign objects beyond the "
                "igraph edge-attribute effects", "classes without a fixture are listed in evidence"],
    "rule": "one evaluation = one SMT query (BMC of the abstract transition system for one class, cached method and bound); "
            "an obligation is distinct by (class, method); non-trivial when the method's read set is non-empty and the class has "
            ">=1 mutator; sat candidates are replayed on real objects and only reproduced differences count",
}


# ------------------------------------------------------------------------------------------ fixtures
def _ts(n=12, seed=3):
    rng = np.random.default_rng(seed)
    return np.round(rng.random(n) * 4) / 4 + np.sin(np.arange(n) / 2.0)


def fixtures():
    """class name -> dict(cls, make, mutators {name: [callable(obj), callable(obj)]}, keyarg)"""
    from pyunicorn.core import Network, GeoNetwork, InteractingNetworks, ResNetwork
    from pyunicorn.climate import ClimateNetwork, TsonisClimateNetwork, ClimateData
    from pyunicorn.timeseries import (RecurrencePlot, RecurrenceNetwork, JointRecurrencePlot, JointRecurrenceNetwork,
                                      InterSystemRecurrenceNetwork, CrossRecurrencePlot, Surrogates, VisibilityGraph)
    F = {}
    A1 = np.array([[0, 1, 0, 0, 0, 1], [1, 0, 1, 0, 0, 0], [0, 1, 0, 1, 0, 0], [0, 0, 1, 0, 1, 0], [0, 0, 0, 1, 0, 1],
                   [1, 0, 0, 0, 1, 0]])
    A2 = np.array([[0, 1, 1, 1, 0, 0], [1, 0, 1, 0, 0, 0], [1, 1, 0, 0, 0, 0], [1, 0, 0, 0, 1, 1], [0, 0, 0, 1, 0, 1],
                   [0, 0, 0, 1, 1, 0]])
    W1 = np.arange(36, dtype=float).reshape(6, 6) % 7 + 1
    W1 = W1 + W1.T
    W2 = 2 * W1 + 1

    def net_make(cls):
        def mk():
            n = cls.SmallTestNetwork()
            n.silence_level = 3
            n.set_link_attribute("la", W1)
            return n
        return mk

    net_mut = {
        "adjacency.setter": [lambda o: setattr(o, "adjacency", A1), lambda o: setattr(o, "adjacency", A2)],
        "node_weights.setter": [lambda o: setattr(o, "node_weights", np.arange(1, o.N + 1, dtype=float)),
                                lambda o: setattr(o, "node_weights", np.arange(2, o.N + 2, dtype=float) ** 2)],
        "set_edge_list": [lambda o: o.set_edge_list([[0, 1], [1, 2], [2, 3], [3, 4], [4, 5]], 6),
                          lambda o: o.set_edge_list([[0, 2], [2, 4], [4, 1], [1, 3], [3, 5], [5, 0]], 6)],
        "set_link_attribute": [lambda o: o.set_link_attribute("la", W2), lambda o: o.set_link_attribute("la", 3 * W1 + 2)],
        "del_link_attribute": [lambda o: o.del_link_attribute("lb")],
        "randomly_rewire": [lambda o: o.randomly_rewire(5)],
    }
    F["Network"] = dict(cls=Network, make=net_make(Network), mutators=net_mut, key="la")
    F["InteractingNetworks"] = dict(cls=InteractingNetworks, make=net_make(InteractingNetworks), mutators=net_mut, key="la")
    geo_mut = dict(net_mut)
    geo_mut["set_node_weight_type"] = [lambda o: o.set_node_weight_type("irrigation"), lambda o: o.set_node_weight_type(None)]
    geo_mut.pop("adjacency.setter")
    geo_mut.pop("set_edge_list")
    F["GeoNetwork"] = dict(cls=GeoNetwork, make=net_make(GeoNetwork), mutators=geo_mut, key="la")

    def clim_make(cls):
        def mk():
            n = cls.SmallTestNetwork()
            n.silence_level = 3
            return n
        return mk
    clim_mut = {
        "set_threshold": [lambda o: o.set_threshold(0.7), lambda o: o.set_threshold(0.3)],
        "set_link_density": [lambda o: o.set_link_density(0.2), lambda o: o.set_link_density(0.6)],
        "set_non_local": [lambda o: o.set_non_local(True), lambda o: o.set_non_local(False)],
        "node_weights.setter": net_mut["node_weights.setter"],
        "set_node_weight_type": geo_mut["set_node_weight_type"],
    }
    F["ClimateNetwork"] = dict(cls=ClimateNetwork, make=clim_make(ClimateNetwork), mutators=clim_mut, key=None)
    ts_mut = dict(clim_mut)
    F["TsonisClimateNetwork"] = dict(cls=TsonisClimateNetwork, make=clim_make(TsonisClimateNetwork), mutators=ts_mut, key=None)

    def cd_make():
        d = ClimateData.SmallTestData()
        d.silence_level = 3
        return d
    F["ClimateData"] = dict(cls=ClimateData, make=cd_make, mutators={
        "set_window": [lambda o: o.set_window({"time_min": 0., "time_max": 4., "lat_min": 10., "lat_max": 20., "lon_min": 5., "lon_max": 10.}),
                       lambda o: o.set_window({"time_min": 2., "time_max": 8., "lat_min": 0., "lat_max": 25., "lon_min": 2.5, "lon_max": 15.})],
        "set_global_window": [lambda o: o.set_global_window()],
    }, key=None)

    x = _ts(12, 3)
    y = _ts(12, 5)

    def rp_make(cls, **kw):
        def mk():
            return cls(x.copy(), silence_level=3, **kw)
        return mk
    rp_mut = {
        "set_fixed_threshold": [lambda o: o.set_fixed_threshold(0.9), lambda o: o.set_fixed_threshold(0.25)],
        "set_fixed_threshold_std": [lambda o: o.set_fixed_threshold_std(0.8), lambda o: o.set_fixed_threshold_std(0.3)],
        "set_fixed_recurrence_rate": [lambda o: o.set_fixed_recurrence_rate(0.6), lambda o: o.set_fixed_recurrence_rate(0.15)],
        "set_fixed_local_recurrence_rate": [lambda o: o.set_fixed_local_recurrence_rate(0.5)],
        "set_adaptive_neighborhood_size": [lambda o: o.set_adaptive_neighborhood_size(3)],
        "embedding.setter": [lambda o: setattr(o, "embedding", o.embed_time_series(o.time_series, 2, 1)),
                             lambda o: setattr(o, "embedding", o.embed_time_series(o.time_series, 3, 1))],
    }
    F["RecurrencePlot"] = dict(cls=RecurrencePlot, make=rp_make(RecurrencePlot, threshold=0.5), mutators=rp_mut, key=None)
    rn_mut = {k: v for k, v in rp_mut.items() if k != "embedding.setter"}
    rn_mut["node_weights.setter"] = [lambda o: setattr(o, "node_weights", np.arange(1, o.N + 1, dtype=float))]
    F["RecurrenceNetwork"] = dict(cls=RecurrenceNetwork, make=rp_make(RecurrenceNetwork, threshold=0.5), mutators=rn_mut, key=None)

    def jrp_make(cls):
        def mk():
            return cls(x.copy(), y.copy(), threshold=(0.5, 0.6), silence_level=3)
        return mk
    j_mut = {
        "set_fixed_threshold": [lambda o: o.set_fixed_threshold((0.9, 0.8)), lambda o: o.set_fixed_threshold((0.25, 0.3))],
        "set_fixed_recurrence_rate": [lambda o: o.set_fixed_recurrence_rate((0.6, 0.5)), lambda o: o.set_fixed_recurrence_rate((0.15, 0.2))],
        "set_fixed_threshold_std": [lambda o: o.set_fixed_threshold_std((0.8, 0.7))],
    }
    F["JointRecurrencePlot"] = dict(cls=JointRecurrencePlot, make=jrp_make(JointRecurrencePlot), mutators=j_mut, key=None)
    F["JointRecurrenceNetwork"] = dict(cls=JointRecurrenceNetwork, make=jrp_make(JointRecurrenceNetwork), mutators=j_mut, key=None)

    def isrn_make():
        return InterSystemRecurrenceNetwork(x.copy(), y.copy(), threshold=(0.5, 0.6, 0.55), silence_level=3)
    F["InterSystemRecurrenceNetwork"] = dict(cls=InterSystemRecurrenceNetwork, make=isrn_make, mutators={
        "set_fixed_threshold": [lambda o: o.set_fixed_threshold((0.9, 0.8, 0.85)), lambda o: o.set_fixed_threshold((0.25, 0.3, 0.2))],
        "set_fixed_recurrence_rate": [lambda o: o.set_fixed_recurrence_rate((0.6, 0.5, 0.4)), lambda o: o.set_fixed_recurrence_rate((0.15, 0.2, 0.1))],
    }, key=None)

    def crp_make():
        return CrossRecurrencePlot(x.copy(), y.copy()[:9], threshold=0.5, silence_level=3)
    F["CrossRecurrencePlot"] = dict(cls=CrossRecurrencePlot, make=crp_make, mutators={
        "set_fixed_threshold": [lambda o: o.set_fixed_threshold(0.9), lambda o: o.set_fixed_threshold(0.25)],
        "set_fixed_recurrence_rate": [lambda o: o.set_fixed_recurrence_rate(0.6), lambda o: o.set_fixed_recurrence_rate(0.15)],
    }, key=None)

    def sur_make():
        s = Surrogates(np.vstack([x, y]).copy(), silence_level=3)
        return s
    F["Surrogates"] = dict(cls=Surrogates, make=sur_make, mutators={
        "normalize_original_data": [lambda o: o.normalize_original_data()],
        "embedding.setter": [lambda o: setattr(o, "embedding", o.embed_time_series_array(o.original_data, 2, 1)),
                             lambda o: setattr(o, "embedding", o.embed_time_series_array(o.original_data, 3, 1))],
    }, key=None, args={"twins": [(0.5, 2)]})

    def vg_make():
        return VisibilityGraph(x.copy(), silence_level=3)
    F["VisibilityGraph"] = dict(cls=VisibilityGraph, make=vg_make, mutators={
        "node_weights.setter": net_mut["node_weights.setter"],
        "set_link_attribute": [lambda o: o.set_link_attribute("la", np.ones((o.N, o.N)) * 2.0),
                               lambda o: o.set_link_attribute("la", np.arange(o.N * o.N, dtype=float).reshape(o.N, o.N) + 1)],
    }, key="la")

    def res_make():
        r = ResNetwork.SmallTestNetwork()
        r.silence_level = 3
        return r
    F["ResNetwork"] = dict(cls=ResNetwork, make=res_make, mutators={
        "update_resistances": [lambda o: o.update_resistances(np.where(o.adjacency > 0, 3.0, 0.0) + np.triu(o.adjacency, 1) + np.triu(o.adjacency, 1).T),
                               lambda o: o.update_resistances(np.where(o.adjacency > 0, 5.0, 0.0))],
    }, key=None)
    return F


# ------------------------------------------------------------------------------------------ model building
def mutator_fx(model, name):
    if name.endswith(".setter"):
        return model.effects(name[:-7], setter=True)
    return model.effects(name)


def query_variants(fx_name, func, fixture):
    """argument patterns for a cached method"""
    try:
        sig = inspect.signature(func)
    except (TypeError, ValueError):
        return [((), {})]
    params = [p for p in sig.parameters.values() if p.name != "self"]
    required = [p for p in params if p.default is inspect.Parameter.empty and p.kind in (p.POSITIONAL_ONLY, p.POSITIONAL_OR_KEYWORD)]
    table = fixture.get("args", {})
    if fx_name in table:
        return [(a, {}) for a in table[fx_name]]
    if required:
        return []
    out = [((), {})]
    names = [p.name for p in params]
    if "key" in names and fixture.get("key"):
        out.append(((), {"key": fixture["key"]}))
    if "typical_weight" in names:
        out.append(((), {"typical_weight": 2.0}))
    if "link_attribute" in names and fixture.get("key"):
        out.append(((), {"link_attribute": fixture["key"]}))
    return out


def same(a, b):
    try:
        if isinstance(a, dict) and isinstance(b, dict):
            return a.keys() == b.keys() and all(same(a[k], b[k]) for k in a)
        if isinstance(a, (list, tuple)) and isinstance(b, (list, tuple)):
            return len(a) == len(b) and all(same(x, y) for x, y in zip(a, b))
        if hasattr(a, "toarray"):
            a = a.toarray()
        if hasattr(b, "toarray"):
            b = b.toarray()
        a_, b_ = np.asarray(a), np.asarray(b)
        if a_.shape != b_.shape:
            return False
        if a_.dtype.kind in "fc" or b_.dtype.kind in "fc":
            return bool(np.allclose(a_, b_, rtol=1e-6, atol=1e-9, equal_nan=True))
        if a_.dtype == object or b_.dtype == object:
            return str(a) == str(b)
        return bool((a_ == b_).all())
    except Exception:  # noqa
        return str(a) == str(b)


def brief(x):
    s = np.array2string(np.asarray(x), precision=4, threshold=12) if not isinstance(x, (dict, str)) else str(x)
    return s[:160]


def run_history(fixture, qname, qargs, qkw, history, picks, prefix=()):
    """returns (first, second, twin) query results on real objects; `prefix` = mutators applied before the first query"""
    def apply(o, name, k):
        alts = fixture["mutators"][name]
        random.seed(1234)
        np.random.seed(1234)
        alts[k % len(alts)](o)
    obj = fixture["make"]()
    for name, k in prefix:
        apply(obj, name, k)
    q = getattr(obj, qname)
    first = q(*qargs, **qkw)
    first = first.copy() if hasattr(first, "copy") else first
    for name, k in zip(history, picks):
        apply(obj, name, k)
    second = getattr(obj, qname)(*qargs, **qkw)
    second = second.copy() if hasattr(second, "copy") else second
    twin = fixture["make"]()
    for name, k in list(prefix) + list(zip(history, picks)):
        apply(twin, name, k)
    twin.cache_clear()
    third = getattr(twin, qname)(*qargs, **qkw)
    return first, second, third


SPECTRAL = {"eigenvector_centrality", "nsi_eigenvector_centrality", "msf_synchronizability", "pagerank"}


def ob_class(name, cname, k, chunk=None, nchunks=1):
    """BMC for every cached method of one class; candidates replayed in-process on real objects"""
    F = fixtures()
    fixture = F[cname]
    cls = fixture["cls"]
    model = heng.ClassModel(cls)
    cached = model.cached_methods()
    muts = {}
    for mname in fixture["mutators"]:
        fx = mutator_fx(model, mname)
        if fx is not None:
            muts[mname] = fx
    funcs = [f"{inspect.getsourcefile(cls).split('/src/')[-1]} {cls.__name__} (cache state: {model.cache_state_attrs})"]
    out = []
    items = sorted(cached.items())
    if chunk is not None:
        items = items[chunk::nchunks]
    for qname, qfx in items:
        func, owner = model.resolve(qname)
        if qname in SPECTRAL:
            out.append(result(f"{name}|{qname}", INCONCLUSIVE, functions=funcs, bound="",
                              reason="ARPACK/eigsh start vector is random: two evaluations of the same state differ; "
                                     "replay oracle not applicable"))
            continue
        oname = f"{name}|{qname}"
        bound = f"{len(muts)} mutators, histories of length <= {k}, key = id + {model.cache_state_attrs} + {qfx.cached_attrs or ()}"
        cands = []
        verdicts = []
        for kk in range(1, k + 1):
            try:
                c, v = heng.bmc_stale(model, qname, qfx, muts, kk, max_candidates=6 if kk == 1 else 4)
            except Exception as e:  # noqa
                c, v = [], [f"error {e}"]
            for vv in v:
                Q.log.append({"tag": f"{oname}|k={kk}", "verdict": vv, "seconds": 0.0, "asserts": 0})
            cands.extend(c)
            verdicts.extend(v)
        if not cands:
            status = HELD if verdicts and all(v == "unsat" for v in verdicts) else INCONCLUSIVE
            out.append(result(oname, status, functions=funcs + [f"{owner.__name__}.{qname}:{qfx.lineno}"], bound=bound,
                              twin="sat" if qfx.reads else "unsat",
                              reason="" if status == HELD else f"solver verdicts {verdicts}"))
            continue
        # replay candidates on real objects
        reproduced = None
        tried = 0
        errors = []
        for cand in cands:
            for (qa, qkw) in query_variants(qname, func, fixture):
                prefixes = [()] + [((mn, 0),) for mn in list(fixture["mutators"])[:6] if mn != cand["history"][0]]
                for prefix in prefixes:
                    for pick in ([0] * len(cand["history"]), [1] * len(cand["history"])):
                        tried += 1
                        try:
                            first, second, twin = run_history(fixture, qname, qa, qkw, cand["history"], pick, prefix)
                        except Exception as e:  # noqa
                            errors.append(f"{cand['history']}: {type(e).__name__}: {str(e)[:80]}")
                            continue
                        if not same(second, twin):
                            reproduced = dict(cls=cname, query=qname, args=list(qa), kwargs=qkw, history=cand["history"], picks=pick,
                                              prefix=[list(x) for x in prefix],
                                              first=brief(first), second=brief(second), twin=brief(twin), changed=cand["changed"])
                            break
                    if reproduced:
                        break
                if reproduced:
                    break
            if reproduced:
                break
        if reproduced:
            argtag = "+".join(sorted(reproduced["kwargs"])) or "defaults"
            sig = f"C01|{cname}.{qname}({argtag})|{'>'.join(reproduced['history'])}"
            out.append(result(oname, VIOLATED, functions=funcs + [f"{owner.__name__}.{qname}:{qfx.lineno}"], bound=bound,
                              twin="sat", signature=sig, witness=dict(kind="history", **reproduced)))
        elif tried and len(errors) == tried:
            out.append(result(oname, INCONCLUSIVE, functions=funcs, bound=bound,
                              reason=f"all {tried} replays of the abstract candidates raised: {errors[:2]}"))
        else:
            out.append(result(oname, HELD, functions=funcs + [f"{owner.__name__}.{qname}:{qfx.lineno}"], bound=bound, twin="sat",
                              detail=f"{len(cands)} abstract candidates (over-approximated read sets), none reproduced on real objects "
                                     f"in {tried} replays" + (f"; replay errors: {errors[:2]}" if errors else "")))
    return out


def prepare(tier):
    F = fixtures()
    ok = 0
    notes = []
    for cname, fx in F.items():
        try:
            o = fx["make"]()
            for mname, alts in fx["mutators"].items():
                for a in alts:
                    try:
                        o2 = fx["make"]()
                        a(o2)
                        ok += 1
                    except Exception as e:  # noqa
                        notes.append(f"fixture {cname}.{mname}: {type(e).__name__}: {str(e)[:100]}")
        except Exception as e:  # noqa
            notes.append(f"fixture {cname}: {type(e).__name__}: {str(e)[:100]}")
    return {"validated": ok, "validation": notes}


def obligations(tier):
    k = 2 if tier == "thorough" else 1
    obs = []
    for cname, fx in fixtures().items():
        nch = 6 if len(heng.ClassModel(fx["cls"]).cached_methods()) > 20 else 1
        for c in range(nch):
            obs.append((ob_class, dict(name=f"C01|{cname}", cname=cname, k=k, chunk=c if nch > 1 else None, nchunks=nch), 3000))
    return obs


def replay(w):
    F = fixtures()
    fx = F[w["cls"]]
    first, second, twin = run_history(fx, w["query"], tuple(w.get("args", ())), w.get("kwargs", {}), w["history"], w["picks"],
                                      [tuple(x) for x in w.get("prefix", [])])
    bad = not same(second, twin)
    return bad, (f"{w['cls']}: after {w.get('prefix', [])} {w['query']}({w.get('kwargs', {})}) = {brief(first)}; after {w['history']} the object reports {brief(second)}, "
                 f"a twin with cleared caches reports {brief(twin)}")
