"""C02 — node-splitting invariance of all n.s.i. measures (Engine P; kernels through Engine K)."""
import inspect
import itertools

import numpy as np
import z3

from .. import core, kern, pe, pnet, sx
from ..core import HELD, INCONCLUSIVE, VIOLATED, Q, result
from ..pe import SV, Explorer, SymNd
from . import gk

PROP = "C02"
META = {
    "bounds": "bits mode: all undirected graphs n<=4 (+1 after the split), directed n<=3; topologies mode (path based measures): "
              "all labelled graphs n<=4 quick / n=5 thorough; every node, symbolic weights>0, proportion in (0,1), "
              "link attributes>0, typical weight>0; interacting variants: all bipartitions; one iterated split (thorough)",
    "assumptions": [
        "exact real arithmetic (float rounding outside)", "dtype erasure in the NumPy/SciPy shims",
        "igraph.distances() contract: BFS hop counts, inf for unreachable",
        "the split network is built by the harness from the statement's definition (twin-twin link attribute = W[v,v] as in splitted_copy)",
    ],
    "outside": ["nsi_eigenvector_centrality, nsi_spreading (ARPACK / expm)", "nsi_degree_histogram helpers (np.histogram not modelled)",
                "n.s.i. Arenas/Newman random-walk betweenness (symbolic matrix inverses)", "float rounding"],
}

EXCLUDE = {
    "nsi_eigenvector_centrality": "ARPACK eigsh", "nsi_spreading": "scipy expm",
    "nsi_degree_histogram": "np.histogram not modelled; invariance not documented",
    "nsi_degree_cumulative_histogram": "np.histogram not modelled; invariance not documented",
    "nsi_arenas_betweenness": "symbolic inverse / component loop (outside bound)",
    "nsi_newman_betweenness": "symbolic inverse (outside bound)",
    "nsi_laplacian": "matrix-valued helper, not a measure documented as invariant",
}
PATH_BASED = {"nsi_average_path_length", "nsi_closeness", "nsi_harmonic_closeness", "nsi_exponential_closeness",
              "nsi_global_efficiency", "nsi_betweenness", "nsi_interregional_betweenness"}
NEEDS_CONNECTED = {"nsi_closeness"}
NO_KEY = {"nsi_bildegree"}      # the library asserts `key is None` ("not implemented with key yet")
# rational measures of degree >= 3 in the weights: decided per concrete topology (bits mode -> NRA `unknown`)
TOPOLOGIES = PATH_BASED | {"nsi_local_cyclemotif_clustering", "nsi_local_midmotif_clustering", "nsi_local_inmotif_clustering",
                           "nsi_local_outmotif_clustering", "nsi_local_clustering", "nsi_global_clustering",
                           "nsi_local_soffer_clustering"}
DIRECTED_OK = {"nsi_degree", "nsi_indegree", "nsi_outdegree", "nsi_bildegree", "nsi_local_cyclemotif_clustering",
               "nsi_local_midmotif_clustering", "nsi_local_inmotif_clustering", "nsi_local_outmotif_clustering"}


def registry():
    from pyunicorn.core.network import Network
    out = []
    for name, f in inspect.getmembers(Network, predicate=callable):
        if not name.startswith("nsi_") or name in EXCLUDE:
            continue
        sig = inspect.signature(getattr(f, "__wrapped__", f))
        params = [p for p in sig.parameters if p != "self"]
        out.append((name, params))
    return out


def kernel_patches():
    return {"pyunicorn.core.network": {
        "_nsi_betweenness": pnet.kernel_shim("core", "_nsi_betweenness", [None, "float64", "int16", "int32", "int8", "int32"]),
    }}


def call_measure(net, name, kw):
    f = getattr(net, name)
    if name == "nsi_interregional_betweenness":
        return f(sources=kw.get("sources"), targets=kw.get("targets"))
    return f(**{k: v for k, v in kw.items() if k in ("key", "typical_weight")})


def neq(a, b):
    """'differs' in the sense of the statement: undefined (NaN/inf) on both sides counts as equal"""
    a, b = pe._num(a), pe._num(b)
    if isinstance(a, sx.NF) or isinstance(b, sx.NF):
        a, b = sx.to_nf(a), sx.to_nf(b)
        same = sx.or_(sx.and_(a.nan, b.nan), sx.and_(sx.not_(a.nan), sx.not_(b.nan), sx.eq(a.val, b.val)))
        return sx.not_(same)
    if isinstance(a, pe._Inf) or isinstance(b, pe._Inf):
        return not (isinstance(a, pe._Inf) and isinstance(b, pe._Inf) and a.sign == b.sign)
    if not sx.is_sym(a) and not sx.is_sym(b):
        # both concrete: python-float arithmetic inside the library (literals like 0.0) is inexact
        fa, fb = float(a), float(b)
        return abs(fa - fb) > 1e-9 * max(1.0, abs(fa), abs(fb))
    return sx.ne(a, b)


def compare(r1, r2, n, v):
    """list of (label, bad) per the statement: global equal; per-node equal off v, both twins carry v's value;
    pairwise equal on untouched pairs"""
    a = np.asarray(r1, dtype=object) if isinstance(r1, np.ndarray) else r1
    b = np.asarray(r2, dtype=object) if isinstance(r2, np.ndarray) else r2
    bads = []
    if not isinstance(a, np.ndarray) or a.ndim == 0:
        bads.append(("global", neq(a if not isinstance(a, np.ndarray) else a.item(),
                                   b if not isinstance(b, np.ndarray) else b.item())))
    elif a.ndim == 1 and a.shape[0] == n:
        for i in range(n):
            bads.append((f"node{i}", neq(a[i], b[i])))
        bads.append((f"twin", neq(a[v], b[n])))
    elif a.ndim == 2 and a.shape == (n, n):
        for i in range(n):
            for j in range(n):
                if i != v and j != v:
                    bads.append((f"pair{i},{j}", neq(a[i, j], b[i, j])))
    else:
        raise pe.Unsupported(f"result shape {getattr(a, 'shape', None)}")
    return bads


def ob_split(name, meas, variant, n, directed, graphs=None):
    """graphs=None: bits mode (adjacency bits symbolic); else list of concrete topologies"""
    from pyunicorn.core import network as netmod
    from pyunicorn.core.network import Network
    funcs = [f"src/pyunicorn/core/network.py Network.{meas}"]
    w = pe.sym(n, "w")
    p = SV(z3.Real("p"))
    hyps = [x.v > 0 for x in w] + [p.v > 0, p.v < 1]
    kw = {}
    W = None
    if "key" in variant:
        Wm = np.zeros((n, n), dtype=object)
        for i in range(n):
            for j in range(n):
                if i == j:
                    continue
                if directed or i < j:
                    Wm[i, j] = SV(z3.Real(f"la_{i}_{j}"))
                    hyps.append(Wm[i, j].v > 0)
                    if not directed:
                        Wm[j, i] = Wm[i, j]
        W = SymNd(Wm)
        kw["key"] = "la"
    if "typical_weight" in variant:
        tw = SV(z3.Real("tw"))
        hyps.append(tw.v > 0)
        kw["typical_weight"] = tw
    results = []
    nq = 0
    cases = [None] if graphs is None else graphs
    bound = (f"{'directed' if directed else 'undirected'} adjacency bits n={n}" if graphs is None else
             f"{len(graphs)} concrete {'directed' if directed else 'undirected'} topologies n={n}") + \
            f", every node, variant {sorted(variant) or 'plain'}"
    sat_w = None
    inconc = []
    total_paths = 0
    for G in cases:
        if G is None:
            A, present = pnet.bits_adjacency(n, directed)
        else:
            A, present = pnet.concrete_adjacency(G, directed)
        for v in range(n):
            if meas == "nsi_interregional_betweenness":
                kw["sources"] = [0]
                kw["targets"] = [n - 1]
                if v in (0, n - 1):
                    continue        # splitting a source/target changes the node sets themselves

            def harness(ex):
                with pe.patched([netmod], kernel_patches()):
                    la = {"la": W} if W is not None else None
                    n1 = pnet.make_network(Network, A, w, present, directed, la)
                    B, w2, pres2, la2 = pnet.split_network(A, w, present, v, p, directed, la)
                    n2 = pnet.make_network(Network, B, w2, pres2, directed, la2)
                    r1 = call_measure(n1, meas, kw)
                    r2 = call_measure(n2, meas, kw)
                return compare(r1, r2, n, v)
            ex = Explorer(hyps, max_paths=256)
            try:
                paths = ex.run(harness)
            except NotImplementedError as e:
                return result(name, INCONCLUSIVE, reason=f"NotImplementedError in the library: {e}", functions=funcs, bound=bound)
            except pe.Unsupported as e:
                inconc.append(f"unsupported: {e}")
                continue
            finally:
                pe.clear_caches(Network)
            total_paths += ex.paths
            if ex.truncated:
                inconc.append("path cap reached")
            for path in paths:
                for label, bad in path.result:
                    if bad is False:
                        continue
                    nq += 1
                    vd, m = Q.check(hyps + path.cond() + [bad], 20, tag=f"{name}|v={v}|{label}")
                    if vd == "sat":
                        sat_w = witness(m, meas, kw, n, directed, A, w, p, W, v, hyps + path.cond(), bad, G)
                        break
                    if vd != "unsat":
                        inconc.append(f"unknown: v={v} {label}")
                if sat_w:
                    break
            if sat_w:
                break
        if sat_w:
            break
    if sat_w:
        return result(name, VIOLATED, functions=funcs, bound=bound, twin="sat",
                      signature=f"C02|Network.{meas}|{'+'.join(sorted(variant)) or 'plain'}|{'directed' if directed else 'undirected'}",
                      witness=sat_w)
    if inconc:
        return result(name, INCONCLUSIVE, reason="; ".join(sorted(set(inconc))[:4]), functions=funcs, bound=bound)
    if nq == 0:
        return result(name, INCONCLUSIVE, reason="no query was generated", functions=funcs, bound=bound)
    tv, _ = Q.check(hyps, 10, tag=name + "|twin", want_model=False)
    return result(name, HELD, functions=funcs, bound=bound, twin=tv, detail=f"{total_paths} paths, {nq} queries")


def witness(m, meas, kw, n, directed, A, w, p, W, v, hyps, bad, G):
    # try a normalised, replayable witness first
    box = [x.v >= sx.Fraction(1, 8) for x in w] + [x.v <= 8 for x in w] + [p.v >= sx.Fraction(1, 8), p.v <= sx.Fraction(7, 8)]
    if W is not None:
        for x in W.ravel():
            if isinstance(x, SV):
                box += [x.v >= sx.Fraction(1, 8), x.v <= 8]
    if "typical_weight" in kw:
        box += [kw["typical_weight"].v >= sx.Fraction(1, 8), kw["typical_weight"].v <= 8]
    vd, m2 = Q.check(hyps + box + [bad], 30, tag="normalise")
    if vd == "sat":
        m = m2
    ev = lambda x: sx.model_value(m, pe._num(x))
    return {"kind": "split", "measure": meas, "directed": directed, "v": v,
            "A": [[int(ev(A[i, j])) for j in range(n)] for i in range(n)],
            "w": [ev(x) for x in w], "p": ev(p),
            "W": [[ev(W[i, j]) for j in range(n)] for i in range(n)] if W is not None else None,
            "typical_weight": ev(kw["typical_weight"]) if "typical_weight" in kw else None,
            "sources": kw.get("sources"), "targets": kw.get("targets")}


# -------------------------------------------------------------------------------------------- validation
def prepare(tier):
    """model validation: every registry measure run through the shims on concrete data must equal the
    unpatched library"""
    from pyunicorn.core import network as netmod
    from pyunicorn.core.network import Network
    notes = []
    ok = 0
    real = Network.SmallTestNetwork()
    real.silence_level = 3
    Aconc = real.adjacency
    wconc = real.node_weights
    Wc = np.triu(np.arange(36).reshape(6, 6) % 5 + 1.0, 1)
    Wc = (Wc + Wc.T) * Aconc
    real.set_link_attribute("la", Wc)
    bad = set()
    for meas, params in registry():
        variants = [set()]
        if "key" in params:
            variants.append({"key"})
        if "typical_weight" in params:
            variants.append({"typical_weight"})
        for var in variants:
            kw = {}
            if "key" in var:
                kw["key"] = "la"
            if "typical_weight" in var:
                kw["typical_weight"] = 2.0
            if meas == "nsi_interregional_betweenness":
                kw.update(sources=[0], targets=[5])
            try:
                ref = call_measure(real, meas, kw)
                A, present = pnet.concrete_adjacency(Aconc.tolist())
                with pe.patched([netmod], kernel_patches()):
                    net = pnet.make_network(Network, A, pe.to_symnd(wconc), present, False, {"la": pe.to_symnd(Wc)})
                    kw2 = dict(kw)
                    if "typical_weight" in kw2:
                        kw2["typical_weight"] = SV(sx.Fraction(2))
                    ex = Explorer([], max_paths=4)
                    paths = ex.run(lambda e: call_measure(net, meas, kw2))
                got = paths[0].result
                gotf = np.array([float(x) if not isinstance(x, float) else x for x in pe.flat_values(got)])
                same = np.allclose(gotf, np.asarray(ref, dtype=float).ravel(), rtol=1e-9, atol=1e-12, equal_nan=True)
            except Exception as e:  # noqa
                same = False
                notes.append(f"{meas}{sorted(var)}: {type(e).__name__}: {str(e)[:120]}")
            finally:
                pe.clear_caches(Network)
            if same:
                ok += 1
            else:
                bad.add((meas, frozenset(var)))
                notes.append(f"{meas}{sorted(var)}: shim result differs from the library")
    global _BAD
    _BAD = bad
    return {"validated": ok, "validation": notes}


_BAD = set()


def ob_guard(fn, **kw):
    if (kw["meas"], frozenset(kw["variant"])) in _BAD:
        return result(kw["name"], INCONCLUSIVE, reason="model validation failed for this measure/variant",
                      functions=[f"Network.{kw['meas']}"])
    return fn(**kw)


def obligations(tier):
    th = tier == "thorough"
    obs = []
    for meas, params in registry():
        variants = [set()]
        if "key" in params and meas not in NO_KEY:
            variants.append({"key"})
        if "typical_weight" in params:
            variants.append({"typical_weight"})
        if "key" in params and "typical_weight" in params and th and meas not in NO_KEY:
            variants.append({"key", "typical_weight"})
        for var in variants:
            tag = "+".join(sorted(var)) or "plain"
            if meas in TOPOLOGIES:
                for n in ((3, 4) if not th else (3, 4, 5)):
                    graphs = list(gk.all_graphs(n))
                    if meas in NEEDS_CONNECTED:
                        graphs = [G for G in graphs if connected(G)]
                    if n == 5 and meas not in PATH_BASED:
                        import random
                        graphs = random.Random(core.SEED).sample(graphs, 128)
                    step = 16 if n <= 4 else 32
                    for ci in range(0, len(graphs), step):
                        nm = f"C02|{meas}|{tag}|topologies n={n}#{ci // step}"
                        obs.append((ob_split, dict(name=nm, meas=meas, variant=var, n=n, directed=False,
                                                   graphs=graphs[ci:ci + step]), 1500))
                if meas in DIRECTED_OK:
                    for n in ((2, 3) if not th else (2, 3)):
                        graphs = list(all_digraphs(n))
                        step = 16
                        for ci in range(0, len(graphs), step):
                            nm = f"C02|{meas}|{tag}|directed topologies n={n}#{ci // step}"
                            obs.append((ob_split, dict(name=nm, meas=meas, variant=var, n=n, directed=True,
                                                       graphs=graphs[ci:ci + step]), 1500))
            else:
                for n in ((3, 4) if not th else (3, 4, 5)):
                    nm = f"C02|{meas}|{tag}|bits n={n}"
                    obs.append((ob_split, dict(name=nm, meas=meas, variant=var, n=n, directed=False), 1500))
                if meas in DIRECTED_OK:
                    for n in ((2, 3) if not th else (2, 3, 4)):
                        nm = f"C02|{meas}|{tag}|directed bits n={n}"
                        obs.append((ob_split, dict(name=nm, meas=meas, variant=var, n=n, directed=True), 1500))
    try:
        from . import C02_inter
        obs.extend(C02_inter.obligations(tier))
    except ImportError:
        pass
    return obs


def all_digraphs(n):
    pairs = [(i, j) for i in range(n) for j in range(n) if i != j]
    for bitsv in itertools.product((0, 1), repeat=len(pairs)):
        A = [[0] * n for _ in range(n)]
        for (i, j), b in zip(pairs, bitsv):
            A[i][j] = b
        yield A


def connected(G):
    n = len(G)
    seen = {0}
    q = [0]
    while q:
        u = q.pop()
        for v in range(n):
            if G[u][v] and v not in seen:
                seen.add(v)
                q.append(v)
    return len(seen) == n


# -------------------------------------------------------------------------------------------- replay
def replay(w):
    if w.get("kind") == "inter-split":
        from . import C02_inter
        return C02_inter.replay(w)
    from pyunicorn.core.network import Network
    A = np.array(w["A"], dtype=int)
    wt = np.array(core.to_float(w["w"]), dtype=float)
    n = len(A)
    v = w["v"]
    p = float(core.to_float(w["p"]))
    net = Network(adjacency=A, directed=w["directed"], node_weights=wt, silence_level=3)
    kw = {}
    if w.get("W") is not None:
        net.set_link_attribute("la", np.array(core.to_float(w["W"]), dtype=float))
        kw["key"] = "la"
    if w.get("typical_weight") is not None:
        kw["typical_weight"] = float(core.to_float(w["typical_weight"]))
    if w.get("sources") is not None:
        kw["sources"], kw["targets"] = w["sources"], w["targets"]
    net2 = net.splitted_copy(node=v, proportion=p)
    r1 = np.asarray(call_measure(net, w["measure"], kw), dtype=float)
    r2 = np.asarray(call_measure(net2, w["measure"], kw), dtype=float)
    tol = 1e-7
    cl = lambda x, y: np.allclose(x, y, rtol=tol, atol=tol, equal_nan=True)
    if r1.ndim == 0:
        bad = not cl(r1, r2)
    elif r1.ndim == 1:
        bad = (not cl(r1, r2[:n])) or not cl(r1[v], r2[n])
    else:
        keep = [i for i in range(n) if i != v]
        bad = not cl(r1[np.ix_(keep, keep)], r2[np.ix_(keep, keep)])
    return bool(bad), (f"Network.{w['measure']}({kw}) A={A.tolist()} w={wt.tolist()} split node {v} proportion {p}: "
                       f"before {np.round(r1, 6).tolist()} after {np.round(r2, 6).tolist()}")
