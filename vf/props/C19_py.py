"""C19 (b): the `if mpi.available:` master blocks of the real methods, executed by Engine P with the library's
`mpi` module replaced by a recording stand-in and the chunk kernels / matrix inverse replaced by uninterpreted
stubs (their own correctness is obligation (a) in C19.py).

Decided per (method, topology, worker count, silence level): every retrieved id was submitted (exactly once),
the submitted [start,end) ranges partition [0,N), every submitted argument equals the corresponding slice of
what the serial branch passes to the kernel, and the reassembled vector equals the serial one for arbitrary
(uninterpreted) per-row kernel results.
"""
import itertools

import numpy as np
import z3

from .. import core, pe, pnet, sx
from ..core import HELD, INCONCLUSIVE, VIOLATED, Q, result
from ..pe import SV, Explorer, SymNd

PROP = "C19"


class MpiStub:
    def __init__(self, size, available=True):
        self.available = available
        self.size = size
        self.am_master = True
        self.am_slave = False
        self.submitted = {}
        self.order = []
        self.retrieved = []
        self.problems = []
        self.results = {}
        self.log = []

    def submit_call(self, name_to_call, args=(), kwargs=None, module="__main__", time_est=1, id=None):
        if id is None:
            id = len(self.order)
        if id in self.submitted:
            self.problems.append(f"id {id} submitted while a job with the same id is still pending")
        self.submitted[id] = (name_to_call, args)
        self.order.append(id)
        self.log.append((name_to_call, args))
        return id

    def get_result(self, id):
        self.retrieved.append(id)
        if id not in self.submitted:
            self.problems.append(f"get_result({id}) without a submitted job (real mpi: KeyError {id})")
            raise KeyError(id)
        name, args = self.submitted.pop(id)
        return KERNEL_STUBS[name.split(".")[-1]](*args)

    def info(self):
        pass


def row_symbol(tag, i):
    return SV(z3.Real(f"{tag}_{i}"))


def stub_newman(this_A, V, N, start_i, end_i):
    return SymNd(np.array([row_symbol("b", i) for i in range(start_i, end_i)], dtype=object)), start_i, end_i


def stub_nsi_newman(this_A, V, N, w, this_mask, start_i, end_i):
    return SymNd(np.array([row_symbol("b", i) for i in range(start_i, end_i)], dtype=object)), start_i, end_i


def stub_arenas(N, sp_P, this_Aplus, w, this_w, start_i, end_i, exclude_neighbors, stopping_mode, this_twinness):
    # contribution of rows [start, end): arbitrary vector per absolute row, summed (the real function is a sum over rows)
    vec = np.zeros(N, dtype=object)
    for i in range(start_i, end_i):
        for j in range(N):
            vec[j] = vec[j] + row_symbol(f"c{i}", j)
    return "", (SymNd(vec), start_i, end_i)


KERNEL_STUBS = {"_mpi_newman_betweenness": stub_newman, "_mpi_nsi_newman_betweenness": stub_nsi_newman,
                "_mpi_nsi_arenas_betweenness": stub_arenas}


class Recorder:
    """wraps a stub so that the serial call is recorded"""

    def __init__(self, fn):
        self.fn = fn
        self.calls = []

    def __call__(self, *args):
        self.calls.append(args)
        return self.fn(*args)


def inv_stub(M):
    n = M.shape[0]
    out = np.empty((n, n), dtype=object)
    for i in range(n):
        for j in range(n):
            out[i, j] = SV(z3.Real(f"inv_{n}_{i}_{j}"))
    return pe.SSparse(SymNd(out))


class IGraphProxy:
    @staticmethod
    def Graph(n=0, edges=None, directed=False):
        present = {}
        for (i, j) in (edges or []):
            i, j = int(i), int(j)
            if i == j:
                continue
            key = (i, j) if directed else (min(i, j), max(i, j))
            present[key] = True
        g = pnet.SGraph(n, present, directed)
        g.simplify = lambda *a, **k: None
        return g


def graphs_for(tier):
    """connected and multi-component topologies large enough for >= 2 parts (N >= 11 per component)"""
    out = []

    def path(n):
        return [[1 if abs(i - j) == 1 else 0 for j in range(n)] for i in range(n)]

    def star_plus(n):
        A = [[0] * n for _ in range(n)]
        for i in range(1, n):
            A[0][i] = A[i][0] = 1
        for i in range(1, n - 1, 2):
            A[i][i + 1] = A[i + 1][i] = 1
        return A

    def union(a, b):
        n, m = len(a), len(b)
        A = [[0] * (n + m) for _ in range(n + m)]
        for i in range(n):
            for j in range(n):
                A[i][j] = a[i][j]
        for i in range(m):
            for j in range(m):
                A[n + i][n + j] = b[i][j]
        return A
    out.append(("path11", path(11)))
    out.append(("star+12", star_plus(12)))
    out.append(("path5", path(5)))
    out.append(("star+13 u path3 u isolated", union(union(star_plus(13), path(3)), [[0]])))
    if tier == "thorough":
        out.append(("path23", path(23)))
        out.append(("star+31", star_plus(31)))
    return out


def run_method(G, meth, size, silence, w, available):
    """execute the real method under the shims; returns (result SymNd, stub, recorders)"""
    from pyunicorn.core import network as netmod
    from pyunicorn.core.network import Network
    n = len(G)
    A, present = pnet.concrete_adjacency(G)
    stub = MpiStub(size, available)
    recs = {k: Recorder(v) for k, v in KERNEL_STUBS.items()}
    patches = {"pyunicorn.core.network": {
        "mpi": stub, "inv": inv_stub, "igraph": IGraphProxy,
        "_mpi_newman_betweenness": recs["_mpi_newman_betweenness"],
        "_mpi_nsi_newman_betweenness": recs["_mpi_nsi_newman_betweenness"],
    }}
    orig_arenas = Network.__dict__["_mpi_nsi_arenas_betweenness"]
    Network._mpi_nsi_arenas_betweenness = staticmethod(recs["_mpi_nsi_arenas_betweenness"])
    try:
        with pe.patched([netmod], patches):
            net = pnet.make_network(Network, A, w, present, False)
            net.silence_level = silence
            import contextlib
            import io
            with contextlib.redirect_stdout(io.StringIO()):
                res = getattr(net, meth)()
    finally:
        Network._mpi_nsi_arenas_betweenness = orig_arenas
        pe.clear_caches(Network)
    return res, stub, recs


def same_terms(a, b):
    """list of disequalities between two array-likes of sx values (False entries dropped)"""
    fa, fb = pe.flat_values(a), pe.flat_values(b)
    if len(fa) != len(fb):
        return [True]
    out = []
    for x, y in zip(fa, fb):
        if x is None and y is None:
            continue
        if isinstance(x, z3.ExprRef) and isinstance(y, z3.ExprRef) and x.eq(y):
            continue
        d = sx.ne(x, y)
        if d is not False:
            out.append(d)
    return out


def ob_master(name, meth, tier):
    funcs = [f"src/pyunicorn/core/network.py Network.{meth} (if mpi.available: block)"]
    kname = {"newman_betweenness": "_mpi_newman_betweenness", "nsi_newman_betweenness": "_mpi_nsi_newman_betweenness",
             "nsi_arenas_betweenness": "_mpi_nsi_arenas_betweenness"}[meth]
    sizes = (2, 3, 12) if tier != "thorough" else (2, 3, 4, 5, 12, 33)
    nq = 0
    cases = 0
    for gname, G in graphs_for(tier):
        n = len(G)
        w = pe.sym(n, "w")
        hyps = [x.v > 0 for x in w]

        def harness_serial(ex):
            return run_method(G, meth, 1, 3, w, False)
        ex = Explorer(hyps, max_paths=4)
        try:
            sp = ex.run(harness_serial)
        except Exception as e:  # noqa
            return result(name, INCONCLUSIVE, reason=f"serial run under the shims failed: {type(e).__name__}: {str(e)[:150]}", functions=funcs)
        if len(sp) != 1:
            return result(name, INCONCLUSIVE, reason=f"serial run forked into {len(sp)} paths", functions=funcs)
        sres, _, srecs = sp[0].result
        scalls = srecs[kname].calls
        for size, silence in itertools.product(sizes, (0, 1, 2, 3)):
            cases += 1
            holder = {}

            def harness(ex):
                try:
                    return run_method(G, meth, size, silence, w, True)
                except KeyError as e:
                    holder["keyerror"] = str(e)
                    return None
            ex = Explorer(hyps, max_paths=4)
            try:
                dp = ex.run(harness)
            except Exception as e:  # noqa
                return result(name, INCONCLUSIVE, functions=funcs,
                              reason=f"distributed run under the shims failed ({gname}, size={size}, silence={silence}): {type(e).__name__}: {str(e)[:150]}")
            wit = dict(kind="py:master", method=meth, graph=G, size=size, silence_level=silence)
            if "keyerror" in holder or dp[0].result is None:
                return result(name, VIOLATED, functions=funcs, twin="sat",
                              bound=f"{gname}, mpi.size={size}, silence_level={silence}",
                              signature=f"C19|Network.{meth}|result-retrieved-but-never-submitted",
                              witness=dict(wit, why=f"get_result for an id that was never submitted ({holder.get('keyerror')})"))
            dres, stub, drecs = dp[0].result
            problems = list(stub.problems)
            # group submitted jobs per component (ids restart per component): compare with serial calls in order
            if stub.submitted:
                problems.append(f"jobs {sorted(stub.submitted)} were submitted but never retrieved")
            # ranges partition + argument slices, per serial call (one per component)
            bads = []
            # reconstruct: iterate serial calls and consume jobs whose N matches
            all_jobs = []
            for idx, (nm, args) in enumerate(stub_log(stub)):
                all_jobs.append(args)
            pos = 0
            for sc in scalls:
                Nc = sc[2] if kname != "_mpi_nsi_arenas_betweenness" else sc[0]
                covered = 0
                while covered < Nc and pos < len(all_jobs):
                    args = all_jobs[pos]
                    pos += 1
                    st, en = (args[-2], args[-1]) if kname != "_mpi_nsi_arenas_betweenness" else (args[5], args[6])
                    if st != covered or not (st < en <= Nc):
                        problems.append(f"chunk [{st},{en}) does not continue the partition at {covered} of [0,{Nc})")
                        break
                    covered = en
                    bads += slice_mismatch(kname, sc, args, st, en)
                if covered != Nc:
                    problems.append(f"submitted ranges cover [0,{covered}) of [0,{Nc})")
            bads += same_terms(sres, dres)
            if problems:
                return result(name, VIOLATED, functions=funcs, twin="sat", bound=f"{gname}, mpi.size={size}, silence_level={silence}",
                              signature=f"C19|Network.{meth}|chunk-partition", witness=dict(wit, why="; ".join(problems[:3])))
            for b in bads:
                nq += 1
                v, m = Q.check(hyps + [b], 20, tag=f"{name}|{gname}|size={size}|sl={silence}")
                if v == "sat":
                    return result(name, VIOLATED, functions=funcs, twin="sat", bound=f"{gname}, mpi.size={size}, silence_level={silence}",
                                  signature=f"C19|Network.{meth}|distributed-differs-from-serial",
                                  witness=dict(wit, why="a submitted argument differs from the slice of the serial argument, or the "
                                                        "reassembled vector differs, for some weights / kernel results",
                                               w=[sx.model_value(m, pe._num(x)) for x in w]))
                if v != "unsat":
                    return result(name, INCONCLUSIVE, reason="solver unknown", functions=funcs)
    return result(name, HELD, functions=funcs, twin="sat",
                  bound=f"{len(graphs_for(tier))} topologies (N up to {max(len(g) for _, g in graphs_for(tier))}), mpi.size in {sizes}, silence_level 0..3; "
                        "symbolic weights, uninterpreted kernel results and matrix inverse",
                  detail=f"{cases} (topology, size, silence) cases, {nq} non-trivial equalities decided")


def stub_log(stub):
    return list(stub.log)


def slice_mismatch(kname, serial, job, st, en):
    """disequalities between the job's arguments and the [st:en) slices of the serial call's arguments"""
    out = []
    if kname == "_mpi_newman_betweenness":
        A, V, N = serial[0], serial[1], serial[2]
        out += same_terms(np.asarray(A)[st:en, :], job[0]) + same_terms(V, job[1])
        if job[2] != N:
            out.append(True)
    elif kname == "_mpi_nsi_newman_betweenness":
        A, V, N, w, mask = serial[0], serial[1], serial[2], serial[3], serial[4]
        out += same_terms(np.asarray(A)[st:en, :], job[0]) + same_terms(V, job[1]) + same_terms(w, job[3])
        out += same_terms(np.asarray(mask)[st:en, :], job[4])
        if job[2] != N:
            out.append(True)
    else:
        N, sp_P, Aplus, w, this_w = serial[0], serial[1], serial[2], serial[3], serial[4]
        out += same_terms(np.asarray(Aplus)[st:en, :], job[2]) + same_terms(w, job[3]) + same_terms(np.asarray(w)[st:en], job[4])
        out += same_terms(sp_P.d if hasattr(sp_P, "d") else sp_P, job[1].d if hasattr(job[1], "d") else job[1])
        if job[0] != N or job[7] != serial[7] or job[8] != serial[8]:
            out.append(True)
    return out


def prepare(tier):
    return {"validated": 0, "validation": []}


def obligations(tier):
    obs = []
    for meth in ("newman_betweenness", "nsi_newman_betweenness", "nsi_arenas_betweenness"):
        obs.append((ob_master, dict(name=f"C19|Network.{meth}|master-block", meth=meth, tier=tier), 3000))
    return obs


# --------------------------------------------------------------------------------------------- replay
class RealMpiStandIn:
    """in-process stand-in executing the submitted job at get_result time (as the real master would receive it)"""

    def __init__(self, size):
        self.available = True
        self.size = size
        self.jobs = {}

    def submit_call(self, name_to_call, args=(), kwargs=None, module="__main__", time_est=1, id=None):
        self.jobs[id] = (name_to_call, args, module)
        return id

    def get_result(self, id):
        name, args, module = self.jobs[id]       # KeyError exactly like utils.mpi
        import importlib
        obj = importlib.import_module(module)
        for part in name.split("."):
            obj = getattr(obj, part)
        return obj(*args)

    def info(self):
        pass


def replay(w):
    import contextlib
    import io
    from pyunicorn.core import network as netmod
    from pyunicorn.core.network import Network
    A = np.array(w["graph"], dtype=int)
    n = len(A)
    wt = np.array(core.to_float(w["w"]), dtype=float) if w.get("w") else np.linspace(1.0, 2.0, n)
    meth = w["method"]
    serial = None
    with contextlib.redirect_stdout(io.StringIO()):
        net = Network(adjacency=A, node_weights=wt, silence_level=3)
        serial = getattr(net, meth)()
    old = netmod.mpi
    netmod.mpi = RealMpiStandIn(w["size"])
    try:
        with contextlib.redirect_stdout(io.StringIO()):
            net2 = Network(adjacency=A, node_weights=wt, silence_level=w["silence_level"])
            try:
                dist = getattr(net2, meth)()
                err = None
            except Exception as e:  # noqa
                dist, err = None, f"{type(e).__name__}: {e}"
    finally:
        netmod.mpi = old
    if err is not None:
        return True, f"Network.{meth}() with mpi.size={w['size']}, silence_level={w['silence_level']} raised {err}; serial result {np.round(serial, 4).tolist()}"
    bad = not np.allclose(serial, dist, rtol=1e-9, atol=1e-12)
    return bad, (f"Network.{meth}() N={n} mpi.size={w['size']} silence_level={w['silence_level']}: serial {np.round(serial, 4).tolist()[:8]}... "
                 f"distributed {np.round(dist, 4).tolist()[:8]}...")
