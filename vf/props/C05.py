"""C05 — all representations of a network agree, and survive save/load (Engine P on the constructor paths of Network with symbolic
edge lists / adjacency bits / node weights / link attributes; igraph and its file formats are environment stubs with stated contracts)."""
import itertools
import re

import numpy as np
import z3

from .. import core, pe, pnet, sx
from ..core import HELD, INCONCLUSIVE, VIOLATED, Q, result
from ..pe import SB, SV, Explorer, SymNd
from ..sx import add, and_, div, eq, ge, gt, ite, le, lt, mul, ne, not_, or_, sub

PROP = "C05"
META = {
    "bounds": "edge-list and igraph paths: n<=3 nodes (4 thorough), 0..3 listed edges with symbolic end points (each link listed once, or in both "
              "directions for undirected networks), directed and undirected; adjacency paths: all graphs n<=3 (4 thorough) as symbolic bits, "
              "dense and sparse; symbolic node weights >= 0 and link attributes; save/Load for graphml, graphmlz, pickle, gml",
    "assumptions": ["igraph.Graph is a stub: an edge table with vertex/edge attribute tables; simplify() merges parallel edges and drops loops",
                    "file formats are contracts of the stub's write/Read pair: graphml, graphmlz and pickle return every attribute unchanged; GML "
                    "restricts attribute keys to alphanumeric characters (igraph drops the other characters on writing)",
                    "exact reals for weights (the text formats' decimal rendering of floats is outside)"],
    "outside": ["igraph's C readers/writers and the bytes on disk", "the contents of grid files (Grid.save/Load are an identity stub); ClimateNetwork save/Load",
                "N = 1 (link density 0/0)", "multigraph inputs (an edge listed twice in the same direction)"],
}
NW = "src/pyunicorn/core/network.py"


# ------------------------------------------------------------------------------------------------ igraph stub
def gml_key(k):
    return re.sub(r"[^A-Za-z0-9]", "", k)


class StubVS:
    def __init__(self, g):
        self.g = g

    def __len__(self):
        return self.g.n

    def attribute_names(self):
        return list(self.g.vattr.keys())

    def set_attribute_values(self, name, values):
        self.g.vattr[name] = list(values)

    def get_attribute_values(self, name):
        return list(self.g.vattr[name])

    def __getitem__(self, name):
        return list(self.g.vattr[name])

    def __setitem__(self, name, values):
        self.g.vattr[name] = list(values)


class StubEdge:
    def __init__(self, g, k):
        self.g, self.k = g, k

    @property
    def tuple(self):
        return self.g.edges[self.k]

    @property
    def source(self):
        return self.g.edges[self.k][0]

    @property
    def target(self):
        return self.g.edges[self.k][1]

    def __getitem__(self, name):
        return self.g.eattr[name][self.k]

    def __setitem__(self, name, v):
        self.g.eattr.setdefault(name, [None] * len(self.g.edges))[self.k] = v


class StubES:
    def __init__(self, g):
        self.g = g

    def __len__(self):
        return len(self.g.edges)

    def __iter__(self):
        return iter(StubEdge(self.g, k) for k in range(len(self.g.edges)))

    def attributes(self):
        return list(self.g.eattr.keys())

    attribute_names = attributes

    def __getitem__(self, name):
        if isinstance(name, str):
            return list(self.g.eattr[name])
        return StubEdge(self.g, name)

    def __setitem__(self, name, values):
        if not isinstance(values, (list, tuple, np.ndarray)):
            values = [values] * len(self.g.edges)
        self.g.eattr[name] = list(values)

    def __delitem__(self, name):
        del self.g.eattr[name]


FILES = {}


class StubGraph:
    """concrete edge table (end points are python ints once execution reaches igraph: symbolic end points have been forked)"""

    def __init__(self, n=0, edges=None, directed=False):
        self.n = int(n)
        self.directed = bool(directed)
        self.edges = [(int(a), int(b)) for a, b in (edges if edges is not None else [])]
        self.vattr, self.eattr = {}, {}
        self.vs, self.es = StubVS(self), StubES(self)

    def is_directed(self):
        return self.directed

    def vcount(self):
        return self.n

    def ecount(self):
        return len(self.edges)

    def get_edgelist(self):
        return list(self.edges)

    def get_adjacency(self, type=2):
        M = [[0] * self.n for _ in range(self.n)]
        for a_, b_ in self.edges:
            M[a_][b_] = 1
            if not self.directed:
                M[b_][a_] = 1

        class _M:
            data = M
        return _M

    def simplify(self, *a, **k):
        seen, keep = set(), []
        for idx, (a_, b_) in enumerate(self.edges):
            key = (a_, b_) if self.directed else (min(a_, b_), max(a_, b_))
            if a_ == b_ or key in seen:
                continue
            seen.add(key)
            keep.append(idx)
        self.edges = [self.edges[i] if self.directed else (min(self.edges[i]), max(self.edges[i])) for i in keep]
        self.eattr = {k_: [v[i] for i in keep] for k_, v in self.eattr.items()}
        return self

    def copy(self):
        g = StubGraph(self.n, self.edges, self.directed)
        g.vattr = {k: list(v) for k, v in self.vattr.items()}
        g.eattr = {k: list(v) for k, v in self.eattr.items()}
        return g

    # --- file formats as contracts
    def write(self, f=None, format=None, *a, **k):
        fmt = format or str(f).rsplit(".", 1)[-1]
        g = self.copy()
        if fmt == "gml":
            g.vattr = {gml_key(k_): v for k_, v in g.vattr.items()}
            g.eattr = {gml_key(k_): v for k_, v in g.eattr.items()}
        elif fmt not in ("graphml", "graphmlz", "pickle"):
            raise pe.Unsupported(f"file format {fmt} has no contract in the stub")
        FILES[str(f)] = (fmt, g)

    @staticmethod
    def Read(f=None, format=None, *a, **k):
        fmt, g = FILES[str(f)]
        return g.copy()


class IGraphStub:
    Graph = StubGraph


# ------------------------------------------------------------------------------------------------ observations
def observe(net, n):
    """(label, value) pairs of everything C05 names, as numbers/terms"""
    A = np.asarray(net.sp_A.d if isinstance(net.sp_A, pe.SSparse) else net.sp_A.toarray(), dtype=object)
    return {"N": net.N, "n_links": pe._num(net.n_links), "link_density": pe._num(net.link_density),
            "A": [[pe._num(A[i, j]) for j in range(n)] for i in range(n)] if A.shape == (n, n) else None,
            "graph_edges": sorted((a, b) if net.graph.is_directed() else (min(a, b), max(a, b)) for a, b in net.graph.get_edgelist()), "graph_directed": net.graph.is_directed(), "graph_n": net.graph.vcount(),
            "w": [pe._num(x) for x in net.node_weights], "total": pe._num(net.total_node_weight), "mean": pe._num(net.mean_node_weight)}


def expect_from_pairs(n, pairs, directed, w):
    """reference quantities for the simple graph with the given set of (ordered) pairs"""
    S = set(pairs)
    if not directed:
        S |= {(b, a) for a, b in S}
    A = [[1 if (i, j) in S else 0 for j in range(n)] for i in range(n)]
    m = len(S)
    return {"N": n, "n_links": m if directed else m // 2, "link_density": sx.div(m, n * (n - 1)), "A": A,
            "graph_edges": sorted(S if directed else {(min(a, b), max(a, b)) for a, b in S}), "graph_directed": directed, "graph_n": n,
            "w": list(w), "total": sx.total(w), "mean": sx.div(sx.total(w), n)}


def differences(obs, exp, tag):
    out = []
    for k in ("N", "graph_n", "graph_directed", "graph_edges"):
        if obs[k] != exp[k]:
            out.append((f"{tag}: {k} is {obs[k]} instead of {exp[k]}", True))
    if obs["A"] is None:
        out.append((f"{tag}: adjacency has the wrong shape", True))
    else:
        n = exp["N"]
        bad = [ne(obs["A"][i][j], exp["A"][i][j]) for i in range(n) for j in range(n)]
        bad = [b for b in bad if b is not False]
        if bad:
            out.append((f"{tag}: adjacency differs from the input links (entries must be 0/1)", or_(*bad)))
    for k in ("n_links", "link_density", "total", "mean"):
        d = ne(obs[k], exp[k])
        if d is not False:
            out.append((f"{tag}: {k} differs", d))
    if len(obs["w"]) != len(exp["w"]):
        out.append((f"{tag}: wrong number of node weights", True))
    else:
        bad = [ne(a, b) for a, b in zip(obs["w"], exp["w"])]
        bad = [b for b in bad if b is not False]
        if bad:
            out.append((f"{tag}: node weights differ from the input", or_(*bad)))
    return out


def mods():
    from pyunicorn.core import network as nm
    return [nm]


def patches():
    return {"pyunicorn.core.network": {"igraph": IGraphStub}}


def sym_weights(n):
    w = [z3.Real(f"w{i}") for i in range(n)]
    return w, [x >= 0 for x in w]


def finish(name, hyps, ex, paths, funcs, bound, sig, witfn):
    nq = 0
    for p in paths:
        for lab, b in p.result:
            if b is False:
                continue
            nq += 1
            if b is True:
                v, m = Q.check(hyps + p.cond(), 30, tag=f"{name}|{lab}")
            else:
                v, m = Q.check(hyps + p.cond() + [b], 60, tag=f"{name}|{lab}")
            if v == "sat":
                short = lab.split(": ", 1)[-1]
                short = re.sub(r" is .* instead of .*", " differs", short)
                return result(name, VIOLATED, functions=funcs, bound=bound, twin="sat", signature=f"{sig}|{short}", witness=dict(witfn(m), label=lab))
            if v != "unsat":
                return result(name, INCONCLUSIVE, reason=f"solver unknown at {lab}", functions=funcs, bound=bound)
    if ex.truncated:
        return result(name, INCONCLUSIVE, reason="path cap", functions=funcs, bound=bound)
    return result(name, HELD, functions=funcs, bound=bound, twin="sat", detail=f"{len(paths)} paths, {nq} queries")


# ------------------------------------------------------------------------------------------------ obligations
def ob_edge_list(name, n, E, directed, via):
    """Network(edge_list=...) resp. Network.FromIGraph(graph) for every listing of a simple graph with E rows: each link once, or (undirected,
    edge_list only) in both directions; symbolic end points, weights and (igraph) link attribute"""
    from pyunicorn.core.network import Network
    funcs = [f"{NW} Network.__init__/set_edge_list/adjacency.setter/node_weights.setter" + ("/FromIGraph/link_attribute" if via == "igraph" else "")]
    bound = f"n={n}, {E} listed edges with symbolic end points, {'directed' if directed else 'undirected'}, via {via}"
    ends = [(z3.Int(f"e{k}_0"), z3.Int(f"e{k}_1")) for k in range(E)]
    w, hyps = sym_weights(n)
    la = [z3.Real(f"la{k}") for k in range(E)]
    for a, b in ends:
        hyps += [a >= 0, a < n, b >= 0, b < n, a != b]
    for k in range(E):
        for l in range(k):
            hyps.append(z3.Or(ends[k][0] != ends[l][0], ends[k][1] != ends[l][1]))           # no row twice
            if via == "igraph" and not directed:
                hyps.append(z3.Or(ends[k][0] != ends[l][1], ends[k][1] != ends[l][0]))       # igraph simple graph: each link once

    def harness(ex):
        out = []
        with pe.patched(mods(), patches()):
            try:
                if via == "edge_list":
                    el = SymNd(np.array([[SV(a), SV(b)] for a, b in ends], dtype=object).reshape(E, 2)) if E else []
                    net = Network(edge_list=el, n_nodes=n, directed=directed, node_weights=SymNd(np.array([SV(x) for x in w], dtype=object)),
                                  silence_level=3)
                    conc = None
                else:
                    conc = [(int(SV(a)), int(SV(b))) for a, b in ends]
                    g = StubGraph(n, conc, directed)
                    g.vs["node_weight_nsi"] = [SV(x) for x in w]
                    if E:
                        g.es["la"] = [SV(x) for x in la]
                    net = Network.FromIGraph(g, silence_level=3)
            except (IndexError, ValueError, TypeError, ZeroDivisionError, AttributeError) as e:
                return [(f"construction raises {type(e).__name__}", True)]
            # the path condition now fixes the end points: read them back
            pairs = conc if conc is not None else [(int(SV(a)), int(SV(b))) for a, b in ends]
            out += differences(observe(net, n), expect_from_pairs(n, pairs, directed, w), via)
            if via == "igraph" and E:
                L = np.asarray(net.link_attribute("la"), dtype=object)
                bad = []
                for k, (a, b) in enumerate(pairs):
                    bad.append(ne(pe._num(L[a, b]), la[k]))
                    if not directed:
                        bad.append(ne(pe._num(L[b, a]), la[k]))
                bad = [x for x in bad if x is not False]
                if bad:
                    out.append(("igraph: link attribute differs from the edge attribute", or_(*bad)))
        return out
    ex = Explorer(hyps, max_paths=20000)
    try:
        paths = ex.run(harness)
    except pe.Unsupported as e:
        return result(name, INCONCLUSIVE, reason=f"unsupported: {e}", functions=funcs, bound=bound)

    def witfn(m):
        return {"kind": "edge_list", "via": via, "n": n, "directed": directed, "edges": [[int(sx.model_value(m, a)), int(sx.model_value(m, b))] for a, b in ends],
                "w": [sx.model_value(m, x) for x in w], "la": [sx.model_value(m, x) for x in la]}
    return finish(name, hyps, ex, paths, funcs, bound, f"C05|Network via {via}", witfn)


def ob_adjacency(name, n, directed, sparse):
    """Network(adjacency=dense or sparse matrix of symbolic bits) and its copy()"""
    from pyunicorn.core.network import Network
    funcs = [f"{NW} Network.__init__/adjacency.setter/node_weights.setter/copy"]
    bound = f"all {'directed' if directed else 'undirected'} graphs n={n} (adjacency bits), {'sparse' if sparse else 'dense'} input, symbolic weights"
    bits = {}
    for i in range(n):
        for j in range(n):
            if i != j and (directed or i < j):
                bits[(i, j)] = z3.Int(f"a_{i}_{j}")
    w, hyps = sym_weights(n)
    hyps += [z3.Or(b == 0, b == 1) for b in bits.values()]

    def entry(i, j):
        if i == j:
            return 0
        return bits[(i, j)] if directed or i < j else bits[(j, i)]

    def harness(ex):
        out = []
        with pe.patched(mods(), patches()):
            M = np.array([[SV(entry(i, j)) if i != j else 0 for j in range(n)] for i in range(n)], dtype=object)
            try:
                net = Network(adjacency=(pe.SSparse(SymNd(M)) if sparse else SymNd(M)), directed=directed,
                              node_weights=SymNd(np.array([SV(x) for x in w], dtype=object)), silence_level=3)
                cp = net.copy()
            except (IndexError, ValueError, TypeError, ZeroDivisionError, AttributeError) as e:
                return [(f"construction raises {type(e).__name__}", True)]
            # the adjacency setter enumerates the non-zero pattern: the path fixes the bits
            pairs = [(i, j) for i in range(n) for j in range(n) if i != j and int(SV(entry(i, j))) == 1]
            exp = expect_from_pairs(n, pairs, directed, w)
            out += differences(observe(net, n), exp, "adjacency")
            out += differences(observe(cp, n), exp, "copy")
        return out
    ex = Explorer(hyps, max_paths=20000)
    try:
        paths = ex.run(harness)
    except pe.Unsupported as e:
        return result(name, INCONCLUSIVE, reason=f"unsupported: {e}", functions=funcs, bound=bound)

    def witfn(m):
        return {"kind": "adjacency", "n": n, "directed": directed, "sparse": sparse,
                "A": [[int(sx.model_value(m, entry(i, j))) if i != j else 0 for j in range(n)] for i in range(n)], "w": [sx.model_value(m, x) for x in w]}
    return finish(name, hyps, ex, paths, funcs, bound, "C05|Network via adjacency", witfn)


def ob_save_load(name, n, G, directed, fmt, cls="Network"):
    """save to / Load from an attribute-preserving format: node weights (+ total, mean), adjacency and link attributes survive
    (Network, and SpatialNetwork / GeoNetwork with the grid file replaced by an identity stub)"""
    from pyunicorn.core import network as nm_, spatial_network as sm_, geo_network as gm_
    from pyunicorn.core import Grid, GeoGrid
    Network = {"Network": nm_.Network, "SpatialNetwork": sm_.SpatialNetwork, "GeoNetwork": gm_.GeoNetwork}[cls]
    funcs = [f"{NW} Network.save/Load/FromIGraph/link_attribute/set_link_attribute"] + \
        ([] if cls == "Network" else [f"src/pyunicorn/core/{'spatial' if cls == 'SpatialNetwork' else 'geo'}_network.py {cls}.save/Load"])
    grids = {}
    mods_ = [nm_, sm_, gm_]
    patch_ = {m.__name__: {"igraph": IGraphStub} for m in mods_}
    pairs = [(i, j) for i in range(n) for j in range(n) if G[i][j] and (directed or i < j)]
    bound = f"{fmt}: {'directed' if directed else 'undirected'} topology {G}, symbolic node weights and link attribute"
    w, hyps = sym_weights(n)
    la = {p: z3.Real(f"la_{p[0]}_{p[1]}") for p in pairs}

    def harness(ex):
        out = []
        FILES.clear()
        saved = (Grid.save, Grid.Load, GeoGrid.save, GeoGrid.Load)
        Grid.save = GeoGrid.save = lambda self_, filename: grids.__setitem__(str(filename), self_)
        Grid.Load = GeoGrid.Load = staticmethod(lambda filename: grids[str(filename)])
        with pe.patched(mods_, patch_):
            try:
                A = np.array(G, dtype=int)
                if cls == "Network":
                    net = Network(adjacency=A, directed=directed, node_weights=SymNd(np.array([SV(x) for x in w], dtype=object)), silence_level=3)
                else:
                    if cls == "SpatialNetwork":
                        grid = Grid(np.arange(2.0), np.array([np.arange(n, dtype=float), np.arange(n, dtype=float) * 2]), 3)
                    else:
                        grid = GeoGrid(np.arange(2.0), np.linspace(-30, 30, n), np.linspace(0, 40, n), 3)
                    net = Network(grid=grid, adjacency=A, directed=directed, silence_level=3)
                    net.node_weights = SymNd(np.array([SV(x) for x in w], dtype=object))
                W = np.zeros((n, n), dtype=object)
                for (i, j), v in la.items():
                    W[i, j] = SV(v)
                    if not directed:
                        W[j, i] = SV(v)
                if pairs:
                    net.set_link_attribute("la", SymNd(W))
                fname = "net." + fmt if cls == "Network" else ("net." + fmt, "grid.file")
                net.save(fname, fileformat=fmt)
                back = Network.Load(fname, fileformat=fmt, silence_level=3)
            except (IndexError, ValueError, TypeError, ZeroDivisionError, AttributeError, KeyError) as e:
                return [(f"save/Load raises {type(e).__name__}", True)]
            finally:
                Grid.save, Grid.Load, GeoGrid.save, GeoGrid.Load = saved[0], staticmethod(saved[1]), saved[2], staticmethod(saved[3])
            out += differences(observe(back, n), expect_from_pairs(n, pairs, directed, w), fmt)
            if pairs:
                try:
                    L = np.asarray(back.link_attribute("la"), dtype=object)
                    bad = [ne(pe._num(L[i, j]), v) for (i, j), v in la.items()]
                    bad = [x for x in bad if x is not False]
                    if bad:
                        out.append((f"{fmt}: link attribute differs after save/Load", or_(*bad)))
                except (KeyError, ValueError) as e:
                    out.append((f"{fmt}: link attribute lost after save/Load", True))
        return out
    ex = Explorer(hyps, max_paths=64)
    try:
        paths = ex.run(harness)
    except pe.Unsupported as e:
        return result(name, INCONCLUSIVE, reason=f"unsupported: {e}", functions=funcs, bound=bound)

    def witfn(m):
        return {"kind": "save_load", "cls": cls, "fmt": fmt, "n": n, "directed": directed, "G": G, "w": [sx.model_value(m, x) for x in w],
                "la": {f"{i},{j}": sx.model_value(m, v) for (i, j), v in la.items()}}
    return finish(name, hyps, ex, paths, funcs, bound, f"C05|{cls}.save/Load|{fmt}", witfn)


def prepare(tier):
    return {"validated": 0, "validation": []}


def obligations(tier):
    th = tier == "thorough"
    obs = []
    for directed in (False, True):
        for via in ("edge_list", "igraph"):
            for n, E in ([(3, 0), (3, 1), (3, 2), (3, 3)] + ([(4, 2), (4, 3)] if th else [])):
                obs.append((ob_edge_list, dict(name=f"C05|{via}|n={n},E={E},{'directed' if directed else 'undirected'}", n=n, E=E, directed=directed, via=via), 2400))
        for sparse in (False, True):
            for n in ((2, 3) if not th else (2, 3, 4)):
                if directed and n == 4:
                    continue
                obs.append((ob_adjacency, dict(name=f"C05|adjacency|n={n},{'directed' if directed else 'undirected'},{'sparse' if sparse else 'dense'}",
                                               n=n, directed=directed, sparse=sparse), 2400))
    tops = [([[0, 0, 0], [0, 0, 0], [0, 0, 0]], False), ([[0, 1, 0], [1, 0, 0], [0, 0, 0]], False), ([[0, 1, 1], [1, 0, 1], [1, 1, 0]], False),
            ([[0, 1, 0], [0, 0, 1], [0, 0, 0]], True), ([[0, 0, 0], [0, 0, 0], [0, 0, 0]], True)]
    if th:
        tops += [([[0, 1, 0, 0], [1, 0, 1, 0], [0, 1, 0, 0], [0, 0, 0, 0]], False), ([[0, 1, 1], [1, 0, 0], [0, 1, 0]], True)]
    for fmt in ("graphml", "graphmlz", "pickle", "gml"):
        for k, (G, d) in enumerate(tops):
            obs.append((ob_save_load, dict(name=f"C05|save/Load|{fmt}|topology#{k}", n=len(G), G=G, directed=d, fmt=fmt), 900))
        for cls in ("SpatialNetwork", "GeoNetwork"):
            for k, (G, d) in enumerate(tops[:4] if not th else tops):
                obs.append((ob_save_load, dict(name=f"C05|{cls} save/Load|{fmt}|topology#{k}", n=len(G), G=G, directed=d, fmt=fmt, cls=cls), 900))
    return obs


# ------------------------------------------------------------------------------------------------ replay
def replay(w):
    import os
    import tempfile
    from pyunicorn.core import Network
    f = core.to_float
    k = w["kind"]
    n = w["n"]
    wt = np.array(f(w["w"]), dtype=float)

    def ref(pairs, directed):
        A = np.zeros((n, n), dtype=int)
        for a, b in pairs:
            A[a, b] = 1
            if not directed:
                A[b, a] = 1
        m = int(A.sum())
        return A, (m if directed else m // 2), m / (n * (n - 1))

    def compare(net, A, nl, ld, tag):
        probs = []
        if net.N != n:
            probs.append(f"N={net.N}")
        if net.adjacency.shape != A.shape or (net.adjacency != A).any():
            probs.append(f"adjacency {net.adjacency.tolist()} instead of {A.tolist()}")
        if net.n_links != nl:
            probs.append(f"n_links={net.n_links} instead of {nl}")
        if not np.isclose(net.link_density, ld):
            probs.append(f"link_density={net.link_density} instead of {ld}")
        if net.graph.ecount() != nl:
            probs.append(f"embedded graph has {net.graph.ecount()} edges instead of {nl}")
        if not np.allclose(net.node_weights, wt) or not np.isclose(net.total_node_weight, wt.sum()) or not np.isclose(net.mean_node_weight, wt.mean()):
            probs.append(f"node weights {net.node_weights.tolist()} (total {net.total_node_weight}) instead of {wt.tolist()}")
        return [f"{tag}: {p}" for p in probs]
    try:
        if k == "edge_list":
            pairs = [tuple(e) for e in w["edges"]]
            A, nl, ld = ref(pairs, w["directed"])
            if w["via"] == "edge_list":
                net = Network(edge_list=np.array(pairs).reshape(len(pairs), 2) if pairs else [], n_nodes=n, directed=w["directed"], node_weights=wt, silence_level=3)
            else:
                import igraph
                g = igraph.Graph(n=n, edges=pairs, directed=w["directed"])
                g.vs["node_weight_nsi"] = list(wt)
                if pairs:
                    g.es["la"] = list(f(w["la"]))
                net = Network.FromIGraph(g, silence_level=3)
            probs = compare(net, A, nl, ld, w["via"])
            return bool(probs), f"edges {pairs} on {n} nodes ({'directed' if w['directed'] else 'undirected'}): " + "; ".join(probs)
        if k == "adjacency":
            import scipy.sparse as sp
            A0 = np.array(w["A"], dtype=int)
            pairs = [(i, j) for i in range(n) for j in range(n) if A0[i, j]]
            A, nl, ld = ref(pairs, True) if w["directed"] else ref(pairs, False)
            net = Network(adjacency=(sp.csc_matrix(A0) if w["sparse"] else A0), directed=w["directed"], node_weights=wt, silence_level=3)
            probs = compare(net, A, nl, ld, "adjacency") + compare(net.copy(), A, nl, ld, "copy")
            return bool(probs), f"adjacency {A0.tolist()}: " + "; ".join(probs)
        if k == "save_load":
            G = np.array(w["G"], dtype=int)
            pairs = [(i, j) for i in range(n) for j in range(n) if G[i, j]]
            A, nl, ld = ref(pairs, w["directed"])
            cls = w.get("cls", "Network")
            if cls == "Network":
                net = Network(adjacency=G, directed=w["directed"], node_weights=wt, silence_level=3)
                Cls = Network
            else:
                from pyunicorn.core import SpatialNetwork, GeoNetwork, Grid, GeoGrid
                if cls == "SpatialNetwork":
                    grid = Grid(np.arange(2.0), np.array([np.arange(n, dtype=float), np.arange(n, dtype=float) * 2]), 3)
                    Cls = SpatialNetwork
                else:
                    grid = GeoGrid(np.arange(2.0), np.linspace(-30, 30, n), np.linspace(0, 40, n), 3)
                    Cls = GeoNetwork
                net = Cls(grid=grid, adjacency=G, directed=w["directed"], silence_level=3)
                net.node_weights = wt
            W = np.zeros((n, n))
            for key, v in w["la"].items():
                i, j = map(int, key.split(","))
                W[i, j] = float(f(v))
                if not w["directed"]:
                    W[j, i] = W[i, j]
            if pairs:
                net.set_link_attribute("la", W)
            d = tempfile.mkdtemp(prefix="c05-")
            fn = os.path.join(d, "net." + w["fmt"])
            if cls != "Network":
                fn = (fn, os.path.join(d, "grid.file"))
            import contextlib
            import io
            with contextlib.redirect_stdout(io.StringIO()):
                net.save(fn, fileformat=w["fmt"])
                back = Cls.Load(fn, fileformat=w["fmt"], silence_level=3)
            probs = compare(back, A, nl, ld, w["fmt"])
            if pairs:
                try:
                    L = back.link_attribute("la")
                    if not np.allclose(L, W):
                        probs.append(f"link attribute {L.tolist()} instead of {W.tolist()}")
                except Exception as e:  # noqa
                    probs.append(f"link attribute lost ({type(e).__name__})")
            import shutil
            shutil.rmtree(d, ignore_errors=True)
            return bool(probs), f"{w['fmt']} round trip of {G.tolist()} with weights {wt.tolist()}: " + "; ".join(probs)
    except Exception as e:  # noqa
        return True, f"{k} {dict((a, b) for a, b in w.items() if a not in ('label',))}: raises {type(e).__name__}: {str(e)[:120]}"
    return False, "unknown witness kind"
