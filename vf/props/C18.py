"""C18 — resistive-network quantities obey circuit laws (Engine P on the real ResNetwork methods with a defining-equation model of the
pseudo-inverse; Engine K + C front end for the current-flow sums)."""
import itertools
from fractions import Fraction

import numpy as np
import z3

from .. import cfront, core, kern, pe, pnet, sx
from ..core import HELD, INCONCLUSIVE, VIOLATED, Q, result
from ..kern import Arr, Run
from ..pe import SV, Explorer, SymNd
from ..sx import add, and_, div, eq, ge, gt, ite, le, lt, mul, ne, not_, or_, sub

PROP = "C18"
META = {
    "bounds": "connected topologies n<=4 (all isomorphism classes) and n=5 (selected); conductances: all symbolic (n=3, sparse n=4), "
              "two symbolic + concrete rationals (dense n=4), one symbolic (n=5); current-flow kernels: N<=3 (quick) / 4 (thorough) with "
              "fully symbolic admittance and R matrices",
    "assumptions": ["numpy.linalg.pinv is modelled by its defining equations for the Laplacian of a connected network "
                    "(L X = I - J/n, 1^T X = 0), after the Laplacian the code hands to it has been shown equal to the admittance Laplacian",
                    "exact real arithmetic (the float32 copies handed to the C routines and pinv's rounding are outside)",
                    "resistances are positive reals (complex impedances outside)"],
    "outside": ["complex impedances", "floating-point error of pinv / float32 conversion", "disconnected networks", "n > 5"],
}
RN = "src/pyunicorn/core/resistive_network.py"


# ------------------------------------------------------------------------------------------------ topologies
def iso_classes(n, connected=True):
    pairs = [(i, j) for i in range(n) for j in range(i + 1, n)]
    perms = list(itertools.permutations(range(n)))
    seen = {}
    for mask in range(1 << len(pairs)):
        E = [pairs[b] for b in range(len(pairs)) if mask >> b & 1]
        key = min(tuple(sorted((min(p[a], p[b]), max(p[a], p[b])) for a, b in E)) for p in perms)
        if key in seen:
            continue
        G = [[0] * n for _ in range(n)]
        for a, b in key:
            G[a][b] = G[b][a] = 1
        if connected:
            reach, todo = {0}, [0]
            while todo:
                v = todo.pop()
                for u in range(n):
                    if G[v][u] and u not in reach:
                        reach.add(u)
                        todo.append(u)
            if len(reach) < n:
                continue
        seen[key] = G
    return list(seen.values())


def edges_of(G):
    n = len(G)
    return [(i, j) for i in range(n) for j in range(i + 1, n) if G[i][j]]


class IGraphStub:
    @staticmethod
    def Graph(n=0, edges=None, directed=False):
        present = {}
        for (i, j) in (edges or []):
            i, j = int(i), int(j)
            if i != j:
                present[(min(i, j), max(i, j))] = True
        g = pnet.SGraph(n, present, directed)
        g.simplify = lambda *a, **k: None
        return g


class State:
    """conductances in force and the pinv calls made so far"""

    def __init__(self):
        self.cur = None
        self.calls = []


def cond_matrix(n, cd):
    C = [[0] * n for _ in range(n)]
    for (a, b), v in cd.items():
        C[a][b] = C[b][a] = v
    return C


def lap_spec(n, cd):
    C = cond_matrix(n, cd)
    return [[(sx.total(C[i][k] for k in range(n)) if i == j else sx.neg(C[i][j])) for j in range(n)] for i in range(n)]


def pinv_model(state, n):
    def hook(M, *a, **k):
        ex = pe.current()
        arr = np.asarray(M.d if isinstance(M, pe.SSparse) else M, dtype=object)
        code_L = [[pe._num(arr[i, j]) for j in range(n)] for i in range(n)]
        kx = len(state.calls)
        X = [[z3.Real(f"x{kx}_{i}_{j}") for j in range(n)] for i in range(n)]
        L = lap_spec(n, state.cur)
        cons = []
        for j in range(n):
            cons.append(sx.lift(sx.total(X[i][j] for i in range(n))) == 0)
            for i in range(n):
                lhs = sx.total(mul(L[i][k_], X[k_][j]) for k_ in range(n))
                cons.append(sx.lift(lhs) == sx.lift(Fraction(1 if i == j else 0) - Fraction(1, n)))
        for c in cons:
            ex.extra.append(c)
            ex.solver.add(c)
        state.calls.append((code_L, L, X))
        out = np.empty((n, n), dtype=object)
        for i in range(n):
            for j in range(n):
                out[i, j] = SV(X[i][j])
        return SymNd(out)
    return hook


def res_matrix(n, cd):
    Rm = np.zeros((n, n), dtype=object)
    for (a, b), c in cd.items():
        r = SV(z3.RealVal(1) / c) if sx.is_sym(c) else SV(Fraction(1) / Fraction(c))
        Rm[a, b] = Rm[b, a] = r
    return SymNd(Rm)


def make_resnet(G, state):
    from pyunicorn.core.resistive_network import ResNetwork
    A, present = pnet.concrete_adjacency(G)
    n = len(G)
    w = SymNd(np.array([SV(Fraction(1))] * n, dtype=object))
    net = pnet.make_network(ResNetwork, A, w, present, False)
    net.graph.simplify = lambda *a, **k: None          # igraph call without effect on a simple graph
    from pyunicorn.core.geo_grid import GeoGrid
    net.grid = GeoGrid(time_seq=np.arange(10), lat_seq=np.absolute(np.linspace(-90, 90, n)), lon_seq=np.linspace(-180, 180, n), silence_level=2)
    net.sparse_Adm = None
    net.adm_graph = None
    net.sparse_R = None
    net._effective_resistances = None
    return net


def patches(state, n, kernels=False):
    ex = {"sparse": pe.SP, "igraph": IGraphStub}
    if kernels:
        from .C20 import extern_for
        ex["_vertex_current_flow_betweenness"] = pnet.kernel_shim("core", "_vertex_current_flow_betweenness", [None, None, None, "float32", "float32", None],
                                                                  extern=extern_for("core"))
        ex["_edge_current_flow_betweenness"] = pnet.kernel_shim("core", "_edge_current_flow_betweenness", [None, None, None, "float32", "float32"],
                                                                extern=extern_for("core"))
    return {"pyunicorn.core.resistive_network": ex}


def conductances(G, nsym, offset=0, tag="c"):
    """first `nsym` links symbolic, the others distinct concrete rationals"""
    E = edges_of(G)
    cd, hyps, syms = {}, [], []
    pool = [Fraction(3, 2), Fraction(2), Fraction(1, 2), Fraction(5, 3), Fraction(1), Fraction(7, 4), Fraction(4, 3), Fraction(3), Fraction(2, 3), Fraction(5, 2)]
    for k, e in enumerate(E):
        if k < nsym:
            v = z3.Real(f"{tag}_{e[0]}_{e[1]}")
            hyps.append(v > 0)
            syms.append(v)
            cd[e] = v
        else:
            cd[e] = pool[(k + offset) % len(pool)]
    return cd, hyps, syms


def num(x):
    return pe._num(x)


def decide(name, hyps, paths, funcs, bound, sig, witfn, timeout=120):
    nq = 0
    unknown = []
    for p in paths:
        for lab, conds in p.result:
            for b in conds:
                if b is False:
                    continue
                nq += 1
                v, m = Q.check(hyps + p.cond() + [b], timeout, tag=f"{name}|{lab}")
                if v == "sat":
                    m = core.normalised_model(hyps + p.cond() + [b], 30) or m
                    return result(f"{name}", VIOLATED, functions=funcs, bound=bound, twin="sat", signature=f"{sig}|{lab}",
                                  witness=dict(witfn(m), label=lab))
                if v != "unsat":
                    unknown.append(lab)
    if unknown:
        return result(name, INCONCLUSIVE, reason=f"solver unknown for: {sorted(set(unknown))[:6]}", functions=funcs, bound=bound)
    tv = "sat"
    if paths:
        tv, _ = Q.check(hyps + paths[0].cond(), 60, tag=name + "|twin", want_model=False)
    return result(name, HELD, functions=funcs, bound=bound, twin=tv, detail=f"{len(paths)} paths, {nq} queries")


# ------------------------------------------------------------------------------------------------ obligations
def ob_laws(name, G, nsym, laws, offset=0):
    """effective-resistance laws and defining sums on one topology"""
    from pyunicorn.core import resistive_network as rmod
    n = len(G)
    E = edges_of(G)
    cd, hyps, syms = conductances(G, nsym, offset)
    funcs = [f"{RN} ResNetwork.update_resistances/update_admittance/update_R/admittance_lapacian/effective_resistance/"
             "average_effective_resistance/diameter_effective_resistance/effective_resistance_closeness_centrality/admittive_degree/"
             "average_neighbors_admittive_degree/local_admittive_clustering"]
    bound = f"topology {G}, {min(nsym, len(E))} of {len(E)} conductances symbolic (>0)"
    state = State()

    def harness(ex):
        out = []
        sx.RECIPROCALS[0] = True
        pe.LINALG.hooks["pinv"] = pinv_model(state, n)
        state.calls.clear()
        state.cur = cd
        try:
            with pe.patched([rmod], patches(state, n)):
                net = make_resnet(G, state)
                net.update_resistances(res_matrix(n, cd))
                code_L, L, X = state.calls[-1]
                out.append(("Laplacian handed to pinv is not diag(sum_j c_ij) - c", [ne(code_L[i][j], L[i][j]) for i in range(n) for j in range(n)]))
                C = cond_matrix(n, cd)
                adm = net.get_admittance()
                out.append(("admittance matrix is not 1/resistance on the links", [ne(num(adm[i, j]), C[i][j]) for i in range(n) for j in range(n)]))
                ER = [[num(net.effective_resistance(a, b)) for b in range(n)] for a in range(n)]
                spec = lambda a, b: 0 if a == b else sub(add(X[a][a], X[b][b]), add(X[a][b], X[b][a]))
                out.append(("effective_resistance(a,b) is not R_aa + R_bb - R_ab - R_ba", [ne(ER[a][b], spec(a, b)) for a in range(n) for b in range(n)]))
                if "metric" in laws:
                    out.append(("effective resistance not symmetric", [ne(ER[a][b], ER[b][a]) for a in range(n) for b in range(a)]))
                    out.append(("effective resistance not positive between distinct nodes", [le(ER[a][b], 0) for a in range(n) for b in range(a)]))
                    out.append(("effective resistance of a node to itself not zero", [ne(ER[a][a], 0) for a in range(n)]))
                if "triangle" in laws:
                    out.append(("triangle inequality fails", [gt(ER[a][b], add(ER[a][k], ER[k][b])) for a, b, k in itertools.permutations(range(n), 3) if a < b]))
                if "path" in laws:
                    out.append(("effective resistance exceeds the resistance of the connecting link", [gt(mul(ER[a][b], cd[(a, b)]), 1) for (a, b) in E]))
                if "foster" in laws:
                    out.append(("Foster's theorem fails", [ne(sx.total(mul(cd[e], ER[e[0]][e[1]]) for e in E), n - 1)]))
                if "series" in laws:
                    # trees: effective resistance = sum of the resistances along the unique path; stated without division:
                    # ER(a,b) * prod(c on path) = sum_k prod(c on path except k)
                    for a in range(n):
                        for b in range(a):
                            pth = tree_path(G, a, b)
                            if pth is None:
                                continue
                            cs = [cd[(min(u, v), max(u, v))] for u, v in pth]
                            prod = lambda L_: (sx.lift(1) if not L_ else (L_[0] if len(L_) == 1 else mul(L_[0], prod(L_[1:]))))
                            rhs = sx.total(prod([c for k2, c in enumerate(cs) if k2 != k]) for k in range(len(cs)))
                            out.append((f"series law fails between {b} and {a}", [ne(mul(ER[a][b], prod(cs)), rhs)]))
                if "parallel" in laws:
                    cyc = cycle_order(G)
                    if cyc is not None:
                        # single cycle: between nodes a, b the two arcs are in parallel: ER * (R1 + R2) = R1 * R2 with R = sum of 1/c;
                        # multiplied through by the product of all conductances of the cycle
                        for ia in range(n):
                            for ib in range(ia):
                                arc1 = [(cyc[k], cyc[k + 1]) for k in range(ib, ia)]
                                arc2 = [(cyc[k % n], cyc[(k + 1) % n]) for k in range(ia, ib + n)]
                                r1 = sx.total(div(1, cd[(min(u, v), max(u, v))]) for u, v in arc1)
                                r2 = sx.total(div(1, cd[(min(u, v), max(u, v))]) for u, v in arc2)
                                a, b = cyc[ia], cyc[ib]
                                out.append((f"parallel law fails between {a} and {b}", [ne(mul(ER[a][b], add(r1, r2)), mul(r1, r2))]))
                if "aggregates" in laws:
                    avg = num(net.average_effective_resistance())
                    pairs = [spec(i, j) for i in range(n) for j in range(i)]
                    out.append(("average_effective_resistance is not the mean over pairs", [ne(mul(avg, n * (n - 1)), mul(2, sx.total(pairs)))]))
                    dia = num(net.diameter_effective_resistance())
                    out.append(("diameter_effective_resistance is not the maximum over pairs",
                                [or_(*[lt(dia, q) for q in pairs]), and_(*[ne(dia, q) for q in pairs])]))
                    for a in range(n):
                        cc = num(net.effective_resistance_closeness_centrality(a))
                        out.append((f"closeness centrality of {a} is not (N-1)/sum_i ER(a,i)",
                                    [ne(mul(cc, sx.total(spec(a, i) for i in range(n))), n - 1)]))
                if "degrees" in laws:
                    ad = net.admittive_degree()
                    ads = [sx.total(C[i][j] for j in range(n)) for i in range(n)]
                    out.append(("admittive_degree is not the row sum of the admittance", [ne(num(ad[i]), ads[i]) for i in range(n)]))
                    an = net.average_neighbors_admittive_degree()
                    out.append(("average_neighbors_admittive_degree is not sum_j A_ij ad_j / ad_i",
                                [ne(mul(num(an[i]), ads[i]), sx.total(ads[j] for j in range(n) if G[i][j])) for i in range(n)]))
                    lc = net.local_admittive_clustering()
                    deg = [sum(G[i]) for i in range(n)]
                    for i in range(n):
                        tri = sx.total(mul(mul(C[i][j], C[i][k]), C[j][k]) for j in range(n) for k in range(n))
                        exp_ok = eq(num(lc[i]), 0) if deg[i] == 1 else eq(mul(num(lc[i]), mul(ads[i], deg[i] - 1)), tri)
                        out.append((f"local_admittive_clustering of node {i} is not the defining sum", [not_(exp_ok)]))
                    gc = num(net.global_admittive_clustering())
                    out.append(("global_admittive_clustering is not the mean of the local values", [ne(mul(gc, n), sx.total(num(x) for x in lc))]))
        finally:
            sx.RECIPROCALS[0] = False
            pe.LINALG.hooks.pop("pinv", None)
        return [(l, [c for c in cs if c is not False]) for l, cs in out]

    ex = Explorer(hyps, max_paths=64)
    try:
        paths = ex.run(harness)
    except pe.Unsupported as e:
        return result(name, INCONCLUSIVE, reason=f"unsupported: {e}", functions=funcs, bound=bound)

    def witfn(m):
        return {"kind": "laws", "G": G, "c": {f"{a},{b}": (sx.model_value(m, v) if sx.is_sym(v) else v) for (a, b), v in cd.items()}}
    return decide(name, hyps, paths, funcs, bound, "C18|ResNetwork", witfn)


def tree_path(G, a, b):
    """the unique path a..b if the graph is a tree, else None"""
    n = len(G)
    if len(edges_of(G)) != n - 1:
        return None
    prev = {a: None}
    todo = [a]
    while todo:
        v = todo.pop()
        for u in range(n):
            if G[v][u] and u not in prev:
                prev[u] = v
                todo.append(u)
    out = []
    v = b
    while prev[v] is not None:
        out.append((v, prev[v]))
        v = prev[v]
    return out


def cycle_order(G):
    n = len(G)
    if n < 3 or any(sum(r) != 2 for r in G) or len(edges_of(G)) != n:
        return None
    order = [0]
    while len(order) < n:
        v = order[-1]
        nxt = [u for u in range(n) if G[v][u] and u not in order]
        if not nxt:
            return None
        order.append(nxt[0])
    return order


def ob_update(name, G, mode):
    """quantities follow a change of the resistances: after queries have been made, update_resistances(new) and every query must equal
    what a freshly built network on the new resistances returns (mode 'change'), resp. scale linearly (mode 'scale')"""
    from pyunicorn.core import resistive_network as rmod
    n = len(G)
    E = edges_of(G)
    funcs = [f"{RN} ResNetwork.update_resistances/average_effective_resistance/diameter_effective_resistance/effective_resistance/"
             "admittive_degree/get_R"]
    cd1, hyps, _ = conductances(G, 1 if mode in ("change", "inplace") else 0, 0, "c")
    if mode == "scale":
        s = z3.Real("scale")
        hyps = hyps + [s > 0, s != 1]
        cd2 = {e: div(v, s) for e, v in cd1.items()}                 # all resistances times s
    else:
        cd2, h2, _ = conductances(G, 1, 3, "d")
        hyps = hyps + h2
    bound = f"topology {G}, " + ("all resistances multiplied by a symbolic factor" if mode == "scale" else
                                  "one symbolic conductance before and after, the others changed between concrete values") + \
        (" -- the caller modifies the array it passed before (net.resistances) in place and passes it again" if mode == "inplace" else "")
    state = State()

    def harness(ex):
        out = []
        sx.RECIPROCALS[0] = True
        pe.LINALG.hooks["pinv"] = pinv_model(state, n)
        state.calls.clear()
        try:
            with pe.patched([rmod], patches(state, n)):
                net = make_resnet(G, state)
                state.cur = cd1
                net.update_resistances(res_matrix(n, cd1))
                ER1 = [[num(net.effective_resistance(a, b)) for b in range(n)] for a in range(n)]
                avg1 = num(net.average_effective_resistance())
                dia1 = num(net.diameter_effective_resistance())
                ad1 = [num(x) for x in net.admittive_degree()]
                lc1 = [num(x) for x in net.local_admittive_clustering()]          # queried before the change (memoisation, if any, is filled)
                gc1 = num(net.global_admittive_clustering())
                # the change
                state.cur = cd2
                if mode == "inplace":
                    Rm, R2 = net.resistances, res_matrix(n, cd2)
                    for a_ in range(n):
                        for b_ in range(n):
                            Rm[a_, b_] = R2[a_, b_]
                    net.update_resistances(Rm)
                else:
                    net.update_resistances(res_matrix(n, cd2))
                if len(state.calls) < 2:
                    out.append(("update_resistances did not recompute the pseudo-inverse for changed resistances", [True]))
                    return [(l, cs) for l, cs in out]
                _, _, X2 = state.calls[-1]
                spec2 = lambda a, b: 0 if a == b else sub(add(X2[a][a], X2[b][b]), add(X2[a][b], X2[b][a]))
                pairs2 = [spec2(i, j) for i in range(n) for j in range(i)]
                ER2 = [[num(net.effective_resistance(a, b)) for b in range(n)] for a in range(n)]
                dia2 = num(net.diameter_effective_resistance())        # queried first: must not come from values stored earlier
                avg2 = num(net.average_effective_resistance())
                ad2 = [num(x) for x in net.admittive_degree()]
                C2 = cond_matrix(n, cd2)
                lc2 = [num(x) for x in net.local_admittive_clustering()]
                gc2 = num(net.global_admittive_clustering())
                deg_ = [sum(G[i]) for i in range(n)]
                ads2 = [sx.total(C2[i][j] for j in range(n)) for i in range(n)]
                bad_lc = []
                for i in range(n):
                    tri = sx.total(mul(mul(C2[i][j], C2[i][k]), C2[j][k]) for j in range(n) for k in range(n))
                    bad_lc.append(ne(lc2[i], 0) if deg_[i] == 1 else ne(mul(lc2[i], mul(ads2[i], deg_[i] - 1)), tri))
                out.append(("local_admittive_clustering after update_resistances is not the defining sum over the new admittances", bad_lc))
                out.append(("global_admittive_clustering after update_resistances is not the mean of the new local values", [ne(mul(gc2, n), sx.total(lc2))]))
                out.append(("effective_resistance after update_resistances is not that of the new resistances",
                            [ne(ER2[a][b], spec2(a, b)) for a in range(n) for b in range(a)]))
                out.append(("diameter_effective_resistance after update_resistances is not the maximum over the new effective resistances",
                            [or_(*[lt(dia2, q) for q in pairs2]), and_(*[ne(dia2, q) for q in pairs2])]))
                out.append(("average_effective_resistance after update_resistances is not the mean over the new effective resistances",
                            [ne(mul(avg2, n * (n - 1)), mul(2, sx.total(pairs2)))]))
                out.append(("admittive_degree after update_resistances is not the row sum of the new admittance",
                            [ne(ad2[i], sx.total(C2[i][j] for j in range(n))) for i in range(n)]))
                if mode == "scale":
                    out.append(("effective resistance does not scale linearly with the resistances",
                                [ne(ER2[a][b], mul(s, ER1[a][b])) for a in range(n) for b in range(a)]))
                    out.append(("average effective resistance does not scale linearly", [ne(avg2, mul(s, avg1))]))
                    out.append(("diameter effective resistance does not scale linearly", [ne(dia2, mul(s, dia1))]))
        finally:
            sx.RECIPROCALS[0] = False
            pe.LINALG.hooks.pop("pinv", None)
        return [(l, [c for c in cs if c is not False]) for l, cs in out]

    ex = Explorer(hyps, max_paths=64)
    try:
        paths = ex.run(harness)
    except pe.Unsupported as e:
        return result(name, INCONCLUSIVE, reason=f"unsupported: {e}", functions=funcs, bound=bound)

    def witfn(m):
        mv = lambda v: sx.model_value(m, v) if sx.is_sym(v) else v
        return {"kind": "update", "G": G, "inplace": mode == "inplace", "c1": {f"{a},{b}": mv(v) for (a, b), v in cd1.items()},
                "c2": {f"{a},{b}": mv(v) for (a, b), v in cd2.items()}}
    return decide(name, hyps, paths, funcs, bound, f"C18|ResNetwork.update_resistances|{mode}", witfn)


def cfb_spec_vertex(N, adm, R, i):
    tot = 0
    for t in range(N):
        for s in range(t):
            if i == t or i == s:
                continue
            I = sx.total(mul(adm.get(i, j), sx.abs_(add(sub(R.get(i, s), R.get(j, s)), sub(R.get(j, t), R.get(i, t))))) for j in range(N))
            tot = add(tot, div(I, 2))
    return div(mul(2, tot), N * (N - 1))


def ob_current_flow(name, N):
    """vertex / edge current-flow betweenness equal their defining sums for every admittance matrix and every R (source and sink
    currents 1 as the public methods pass them)"""
    from .C20 import extern_for
    mod = kern.module("core")
    cm = cfront.cmodule("core")
    funcs = [mod.func_info("_vertex_current_flow_betweenness"), cm.func_info("_vertex_current_flow_betweenness_fast"),
             mod.func_info("_edge_current_flow_betweenness"), cm.func_info("_edge_current_flow_betweenness_fast")]
    adm = Arr((N, N), [z3.Real(f"y{k}") for k in range(N * N)], "float32", "adm")
    R = Arr((N, N), [z3.Real(f"r{k}") for k in range(N * N)], "float32", "R")
    nq = 0
    for i in range(N):
        run = Run(mod, loop_bound=N + 1, extern=extern_for("core"), split=False)
        out = run.call("_vertex_current_flow_betweenness", [N, 1, 1, adm.copy(), R.copy(), i])
        bad = [run.exc(), ne(out, cfb_spec_vertex(N, adm, R, i))] if N > 1 else [run.exc()]
        for b in bad:
            if b is False:
                continue
            nq += 1
            v, m = Q.check(run.assumptions + [b], 120, tag=f"{name}|vertex {i}")
            if v == "sat":
                return result(name, VIOLATED, functions=funcs, bound=f"N={N}", twin="sat", signature="C18|vertex_current_flow_betweenness|defining-sum",
                              witness={"kind": "vcfb", "N": N, "i": i, "adm": adm.nested(lambda x: sx.model_value(m, x)), "R": R.nested(lambda x: sx.model_value(m, x))})
            if v != "unsat":
                return result(name, INCONCLUSIVE, reason="solver unknown", functions=funcs, bound=f"N={N}")
    run = Run(mod, loop_bound=N + 1, extern=extern_for("core"), split=False)
    out = run.call("_edge_current_flow_betweenness", [N, 1, 1, adm.copy(), R.copy()])
    bad = [run.exc()]
    if N > 1:
        for i in range(N):
            for j in range(N):
                tot = sx.total(mul(adm.get(i, j), sx.abs_(add(sub(R.get(i, s), R.get(j, s)), sub(R.get(j, t), R.get(i, t)))))
                               for t in range(N) for s in range(t))
                bad.append(ne(out.get(i, j), div(mul(2, tot), N * (N - 1))))
    for b in bad:
        if b is False:
            continue
        nq += 1
        v, m = Q.check(run.assumptions + [b], 120, tag=f"{name}|edge")
        if v == "sat":
            return result(name, VIOLATED, functions=funcs, bound=f"N={N}", twin="sat", signature="C18|edge_current_flow_betweenness|defining-sum",
                          witness={"kind": "ecfb", "N": N, "adm": adm.nested(lambda x: sx.model_value(m, x)), "R": R.nested(lambda x: sx.model_value(m, x))})
        if v != "unsat":
            return result(name, INCONCLUSIVE, reason="solver unknown", functions=funcs, bound=f"N={N}")
    return result(name, HELD, functions=funcs, bound=f"N={N}, every admittance and R matrix, Is=It=1", twin="sat", detail=f"{nq} queries")


def ob_public_cfb(name, G):
    """the public betweenness methods hand the admittance matrix, the pseudo-inverse, N and the node index to the kernels"""
    from pyunicorn.core import resistive_network as rmod
    n = len(G)
    cd, hyps, _ = conductances(G, 1, 0)
    funcs = [f"{RN} ResNetwork.vertex_current_flow_betweenness/edge_current_flow_betweenness", kern.module("core").func_info("_vertex_current_flow_betweenness"),
             cfront.cmodule("core").func_info("_vertex_current_flow_betweenness_fast"), cfront.cmodule("core").func_info("_edge_current_flow_betweenness_fast")]
    bound = f"topology {G}, one symbolic conductance"
    state = State()

    def harness(ex):
        out = []
        sx.RECIPROCALS[0] = True
        pe.LINALG.hooks["pinv"] = pinv_model(state, n)
        state.calls.clear()
        state.cur = cd
        try:
            with pe.patched([rmod], patches(state, n, kernels=True)):
                net = make_resnet(G, state)
                net.update_resistances(res_matrix(n, cd))
                _, _, X = state.calls[-1]
                C = cond_matrix(n, cd)
                admA = Arr((n, n), [C[i][j] for i in range(n) for j in range(n)], "float32")
                RA = Arr((n, n), [X[i][j] for i in range(n) for j in range(n)], "float32")
                for i in range(n):
                    v = num(net.vertex_current_flow_betweenness(i))
                    out.append((f"vertex_current_flow_betweenness({i}) is not the defining sum", [ne(v, cfb_spec_vertex(n, admA, RA, i))]))
                e = net.edge_current_flow_betweenness()
                for i in range(n):
                    for j in range(n):
                        tot = sx.total(mul(C[i][j], sx.abs_(add(sub(X[i][s], X[j][s]), sub(X[j][t], X[i][t])))) for t in range(n) for s in range(t))
                        out.append((f"edge_current_flow_betweenness[{i},{j}] is not the defining sum", [ne(num(e[i, j]), div(mul(2, tot), n * (n - 1)))]))
        finally:
            sx.RECIPROCALS[0] = False
            pe.LINALG.hooks.pop("pinv", None)
        return [(l, [c for c in cs if c is not False]) for l, cs in out]
    ex = Explorer(hyps, max_paths=64)
    try:
        paths = ex.run(harness)
    except pe.Unsupported as e:
        return result(name, INCONCLUSIVE, reason=f"unsupported: {e}", functions=funcs, bound=bound)

    def witfn(m):
        return {"kind": "laws", "G": G, "c": {f"{a},{b}": (sx.model_value(m, v) if sx.is_sym(v) else v) for (a, b), v in cd.items()}}
    return decide(name, hyps, paths, funcs, bound, "C18|ResNetwork", witfn)


def prepare(tier):
    return {"validated": 0, "validation": [], "source": {"core/_ext/src_numerics.c": cfront.cmodule("core").sha, "core/_ext/numerics.pyx": kern.module("core").sha}}


ALL = ("metric", "triangle", "path", "foster", "series", "parallel", "aggregates", "degrees")


def obligations(tier):
    th = tier == "thorough"
    obs = []
    c3, c4 = iso_classes(3), iso_classes(4)
    for k, G in enumerate(c3):
        obs.append((ob_laws, dict(name=f"C18|laws|n=3#{k}|all conductances symbolic", G=G, nsym=9, laws=ALL), 1500))
    for k, G in enumerate(c4):
        m = len(edges_of(G))
        if m <= 4:
            obs.append((ob_laws, dict(name=f"C18|laws|n=4#{k}|all conductances symbolic", G=G, nsym=9,
                                      laws=("metric", "path", "foster", "series", "parallel", "degrees") + (("triangle", "aggregates") if th else ())), 1800))
        obs.append((ob_laws, dict(name=f"C18|laws|n=4#{k}|two symbolic conductances", G=G, nsym=2, laws=ALL), 1500))
        if th:
            obs.append((ob_laws, dict(name=f"C18|laws|n=4#{k}|two symbolic conductances (other values)", G=G, nsym=2, laws=ALL, offset=4), 1500))
    c5 = iso_classes(5)
    sel5 = c5 if th else c5[::4]
    for k, G in enumerate(sel5):
        obs.append((ob_laws, dict(name=f"C18|laws|n=5#{k}|one symbolic conductance", G=G, nsym=1, laws=ALL), 1500))
    for k, G in enumerate(c3 + c4[:(6 if th else 3)]):
        obs.append((ob_update, dict(name=f"C18|update_resistances|change|n={len(G)}#{k}", G=G, mode="change"), 1500))
        obs.append((ob_update, dict(name=f"C18|update_resistances|scale|n={len(G)}#{k}", G=G, mode="scale"), 1500))
        obs.append((ob_update, dict(name=f"C18|update_resistances|in place|n={len(G)}#{k}", G=G, mode="inplace"), 1500))
    for N in ((1, 2, 3) if not th else (1, 2, 3, 4)):
        obs.append((ob_current_flow, dict(name=f"C18|current-flow kernels|N={N}", N=N), 1800))
    for k, G in enumerate(c3 + (c4[:2] if th else [])):
        obs.append((ob_public_cfb, dict(name=f"C18|public current-flow betweenness|n={len(G)}#{k}", G=G), 1500))
    return obs


# ------------------------------------------------------------------------------------------------ replay
def _net(G, c):
    from pyunicorn.core.resistive_network import ResNetwork
    f = core.to_float
    n = len(G)
    Rm = np.zeros((n, n))
    for k, v in c.items():
        a, b = map(int, k.split(","))
        Rm[a, b] = Rm[b, a] = 1.0 / float(f(v))
    return ResNetwork(Rm, silence_level=3), Rm


def _ref_er(Rm):
    n = len(Rm)
    C = np.where(Rm != 0, 1.0 / np.where(Rm != 0, Rm, 1), 0.0)
    L = np.diag(C.sum(axis=1)) - C
    X = np.linalg.inv(L + np.ones((n, n)) / n) - np.ones((n, n)) / n
    return np.array([[X[a, a] + X[b, b] - 2 * X[a, b] for b in range(n)] for a in range(n)]), C, X


def replay(w):
    k = w["kind"]
    tol = dict(rtol=1e-6, atol=1e-9)
    if k == "update":
        G = w["G"]
        net, R1 = _net(G, w["c1"])
        net.average_effective_resistance()
        net.diameter_effective_resistance()
        net.local_admittive_clustering()
        net.global_admittive_clustering()
        net.admittive_degree()
        _, R2 = _net(G, w["c2"])
        if w.get("inplace"):
            net.resistances[...] = R2
            net.update_resistances(net.resistances)
        else:
            net.update_resistances(R2)
        ER, C, X = _ref_er(R2)
        n = len(G)
        A_ = np.array(G)
        deg_ = A_.sum(axis=1)
        ad_ = C.sum(axis=1)
        tri_ = np.einsum("ij,ik,jk->i", C, C, C)
        lc_ = np.where(deg_ == 1, 0.0, tri_ / (ad_ * np.where(deg_ == 1, 1, deg_ - 1)))
        got = {"diameter": net.diameter_effective_resistance(), "average": net.average_effective_resistance(),
               "er01": net.effective_resistance(0, 1), "admittive_degree": net.admittive_degree(),
               "local_admittive_clustering": net.local_admittive_clustering(), "global_admittive_clustering": net.global_admittive_clustering()}
        ref = {"diameter": ER.max(), "average": ER.sum() / (n * (n - 1)), "er01": ER[0, 1], "admittive_degree": ad_,
               "local_admittive_clustering": lc_, "global_admittive_clustering": lc_.mean()}
        bad = {q: (got[q], ref[q]) for q in got if not np.allclose(got[q], ref[q], **tol)}
        return bool(bad), (f"resistances {R1.tolist()} -> update_resistances({R2.tolist()}): " +
                           "; ".join(f"{q} = {a!r}, reference on the new resistances {b!r}" for q, (a, b) in bad.items()))
    if k == "laws":
        G = w["G"]
        net, Rm = _net(G, w["c"])
        ER, C, X = _ref_er(Rm)
        n = len(G)
        probs = []
        got = np.array([[net.effective_resistance(a, b) for b in range(n)] for a in range(n)])
        if not np.allclose(got, ER, **tol):
            probs.append(f"effective resistances {got.tolist()} vs reference {ER.tolist()}")
        if not np.allclose(net.admittance_lapacian(), np.diag(C.sum(axis=1)) - C, **tol):
            probs.append("admittance Laplacian differs from diag(sum c) - c")
        if not np.isclose(net.average_effective_resistance(), ER.sum() / (n * (n - 1)), **tol):
            probs.append(f"average_effective_resistance {net.average_effective_resistance()} vs {ER.sum() / (n * (n - 1))}")
        if not np.isclose(net.diameter_effective_resistance(), ER.max(), **tol):
            probs.append(f"diameter_effective_resistance {net.diameter_effective_resistance()} vs {ER.max()}")
        for a in range(n):
            if not np.isclose(net.effective_resistance_closeness_centrality(a), (n - 1) / ER[a].sum(), **tol):
                probs.append(f"closeness({a})")
        ad = C.sum(axis=1)
        if not np.allclose(net.admittive_degree(), ad, **tol):
            probs.append(f"admittive_degree {net.admittive_degree().tolist()} vs {ad.tolist()}")
        A = np.array(G)
        if not np.allclose(net.average_neighbors_admittive_degree(), A.dot(ad) / ad, **tol):
            probs.append("average_neighbors_admittive_degree")
        deg = A.sum(axis=1)
        tri = np.einsum("ij,ik,jk->i", C, C, C)
        lc = np.where(deg == 1, 0.0, tri / (ad * np.where(deg == 1, 1, deg - 1)))
        if not np.allclose(net.local_admittive_clustering(), lc, **tol):
            probs.append(f"local_admittive_clustering {net.local_admittive_clustering().tolist()} vs {lc.tolist()}")
        f32 = dict(rtol=1e-4, atol=1e-6)
        for i in range(n):
            ref = _ref_vcfb(n, C, X, i)
            if not np.isclose(net.vertex_current_flow_betweenness(i), ref, **f32):
                probs.append(f"vertex_current_flow_betweenness({i}) = {net.vertex_current_flow_betweenness(i)} vs {ref}")
        if not np.allclose(net.edge_current_flow_betweenness(), _ref_ecfb(n, C, X), **f32):
            probs.append("edge_current_flow_betweenness")
        return bool(probs), f"conductances {w['c']} on {G}: " + "; ".join(probs)
    if k in ("vcfb", "ecfb"):
        from pyunicorn.core._ext import numerics as CN
        f = core.to_float
        N = w["N"]
        adm, R = np.array(f(w["adm"]), dtype="float32"), np.array(f(w["R"]), dtype="float32")
        if k == "vcfb":
            got = CN._vertex_current_flow_betweenness(N, 1.0, 1.0, adm, R, w["i"])
            ref = _ref_vcfb(N, adm.astype(float), R.astype(float), w["i"])
            return (not np.isclose(got, ref, rtol=1e-4, atol=1e-6)), f"_vertex_current_flow_betweenness = {got} vs defining sum {ref}"
        got = CN._edge_current_flow_betweenness(N, 1.0, 1.0, adm, R)
        ref = _ref_ecfb(N, adm.astype(float), R.astype(float))
        return (not np.allclose(got, ref, rtol=1e-4, atol=1e-6)), f"_edge_current_flow_betweenness = {got.tolist()} vs defining sum {ref.tolist()}"
    return False, "unknown witness kind"


def _ref_vcfb(n, C, X, i):
    tot = 0.0
    for t in range(n):
        for s in range(t):
            if i in (s, t):
                continue
            tot += 0.5 * sum(C[i, j] * abs(X[i, s] - X[j, s] + X[j, t] - X[i, t]) for j in range(n))
    return 2 * tot / (n * (n - 1)) if n > 1 else 0.0


def _ref_ecfb(n, C, X):
    out = np.zeros((n, n))
    for i in range(n):
        for j in range(n):
            out[i, j] = 2 * sum(C[i, j] * abs(X[i, s] - X[j, s] + X[j, t] - X[i, t]) for t in range(n) for s in range(t)) / (n * (n - 1)) if n > 1 else 0.0
    return out
