"""C07 — recurrence matrices are exactly the thresholded distance matrices (Engine K + P)."""
import itertools

import numpy as np
import z3

from .. import core, kern, kcheck, pe, pnet, sx
from ..core import HELD, INCONCLUSIVE, VIOLATED, Q, result
from ..kcheck import decide, mv, mv_arr
from ..kern import Arr, Run
from ..pe import SV, Explorer, SymNd
from ..sx import NF, add, and_, eq, ite, lt, mul, ne, not_, or_, sub

PROP = "C07"
TS = "timeseries"
META = {
    "bounds": "distance / embedding kernels: length<=4, dim<=2, tau<=2, real (NaN-able) samples; constructors and setters of "
              "RecurrencePlot, CrossRecurrencePlot, JointRecurrencePlot (lag -2..2), RecurrenceNetwork executed by Engine P with "
              "length<=3 (4 thorough); recurrence-rate index arithmetic by forking on int(rate*(N-1))",
    "assumptions": ["exact real arithmetic, dtype erasure (float32 storage of the series is not modelled)",
                    "sqrt as fresh s>=0 with s*s = x", "np.sort / argsort: stable insertion order decided by forking on comparisons"],
    "outside": ["threshold_from_recurrence_rate_fast, bootstrap_distance_matrix (sampling)", "normalize=True", "float rounding"],
}

METRICS = ("manhattan", "euclidean", "supremum")


def dist_spec(metric, a, b):
    """distance of two state vectors (lists of sx values); euclidean returned as squared value"""
    diffs = [sx.abs_(sub(x, y)) for x, y in zip(a, b)]
    if metric == "manhattan":
        return sx.total(diffs), False
    if metric == "euclidean":
        return sx.total(mul(d, d) for d in diffs), True
    out = 0
    for d in diffs:
        out = ite(sx.gt(d, out), d, out)
    return out, False


def ob_distance_kernel(name, metric, kind, n, m, dim):
    mod = kern.module(TS)
    fn = f"_{metric}_distance_matrix_{kind}"
    X = kern.sym_real_arr((n, dim), "x")
    run = Run(mod, loop_bound=max(n, m, dim) + 1)
    if kind == "rp":
        D = run.call(fn, [n, dim, X])
        Y = X
        m = n
    else:
        Y = kern.sym_real_arr((m, dim), "y")
        D = run.call(fn, [n, m, dim, X, Y])
    bad = [not_(run.ok())]
    for i in range(n):
        for j in range(m):
            spec, squared = dist_spec(metric, [X.get(i, l) for l in range(dim)], [Y.get(j, l) for l in range(dim)])
            d = D.get(i, j)
            if squared:
                bad.append(or_(lt(d, 0), ne(mul(d, d), spec)))
            else:
                bad.append(ne(d, spec))
            if kind == "rp":
                bad.append(ne(d, D.get(j, i)))
                if i == j:
                    bad.append(ne(d, 0))

    def wit(mm):
        return {"kind": "distance", "fn": fn, "metric": metric, "which": kind, "X": mv_arr(mm, X), "Y": mv_arr(mm, Y)}
    return decide(name, run.assumptions, bad, [mod.func_info(fn)], f"{n}x{m} states, dim={dim}, reals",
                  f"C07|{fn}|metric-formula", wit, timeout=120)


def ob_embed(name, n, dim, tau, array_variant):
    mod = kern.module(TS)
    L = n - (dim - 1) * tau
    if L <= 0:
        return result(name, HELD, functions=[], bound="empty embedding", twin="sat")
    if array_variant:
        fn = "_embed_time_series_array"
        x = kern.sym_real_arr((2, n), "x")
        E = Arr.full((2, L, dim), kern.UNDEF, "float64")
        run = Run(mod, loop_bound=n + 1)
        run.call(fn, [2, n, dim, tau, x, E])
        bad = [not_(run.ok())]
        for s in range(2):
            for k in range(L):
                for j in range(dim):
                    v = E.get(s, k, j)
                    bad.append(True if v is kern.UNDEF else ne(v, x.get(s, k + j * tau)))
    else:
        fn = "_embed_time_series"
        x = kern.sym_real_arr((n,), "x")
        E = Arr.full((L, dim), kern.UNDEF, "float32")
        run = Run(mod, loop_bound=n + 1)
        run.call(fn, [n, dim, tau, x, E])
        bad = [not_(run.ok())]
        for k in range(L):
            for j in range(dim):
                v = E.get(k, j)
                bad.append(True if v is kern.UNDEF else ne(v, x.get(k + j * tau)))

    def wit(mm):
        return {"kind": "embed", "n": n, "dim": dim, "tau": tau, "array": array_variant, "x": mv_arr(mm, x)}
    return decide(name, run.assumptions, bad, [mod.func_info(fn)], f"n={n}, dim={dim}, tau={tau}",
                  f"C07|{fn}|delay-embedding", wit, timeout=60)


def ob_adaptive(name, n, k):
    """_set_adaptive_neighborhood_size: for every distance order (sorted_neighbors = any row-wise permutation with the
    node itself first) every row ends with at least k neighbours and no exception is raised (k <= n-1)"""
    mod = kern.module(TS)
    fn = "_set_adaptive_neighborhood_size"
    SN = kern.sym_int_arr((n, n), "sn", "int32")
    hyps = []
    for i in range(n):
        hyps.append(SN.get(i, 0) == i)
        for j in range(n):
            hyps += [SN.get(i, j) >= 0, SN.get(i, j) < n]
        hyps.append(z3.Distinct(*[SN.get(i, j) for j in range(n)]))
    order = Arr((n,), list(range(n)), "int32")
    R = Arr.full((n, n), 0, "int8")
    run = Run(mod, loop_bound=n + 2, hyps=hyps, split={"k", "l"})
    run.call(fn, [n, k, SN, order, R])
    exc = run.exc()
    bad = [exc, or_(*[e.cond for e in run.events if e.kind == "unwind"])]
    for i in range(n):
        cnt = sx.total(ite(and_(eq(R.get(i, j), 1), True), 1, 0) for j in range(n) if j != i)
        bad.append(lt(cnt, k))
        for j in range(n):
            bad.append(ne(R.get(i, j), R.get(j, i)))

    def wit(mm):
        return {"kind": "adaptive", "n": n, "k": k, "sorted_neighbors": mv_arr(mm, SN)}
    return decide(name, hyps + run.assumptions, bad, [mod.func_info(fn)],
                  f"n={n}, neighbourhood size {k}, every row-wise neighbour order", f"C07|{fn}|at-least-k-neighbours", wit, timeout=300)


# --------------------------------------------------------------------------------------------- Engine P: classes
def ts_patches():
    K = pnet.kernel_shim
    d2 = ["float64"]
    rp = {
        "_embed_time_series": K(TS, "_embed_time_series", [None, None, None, "float32", "float32"]),
        "_manhattan_distance_matrix_rp": K(TS, "_manhattan_distance_matrix_rp", [None, None, "float64"]),
        "_euclidean_distance_matrix_rp": K(TS, "_euclidean_distance_matrix_rp", [None, None, "float64"]),
        "_supremum_distance_matrix_rp": K(TS, "_supremum_distance_matrix_rp", [None, None, "float64"]),
        "_set_adaptive_neighborhood_size": K(TS, "_set_adaptive_neighborhood_size", [None, None, "int32", "int32", "int8"]),
    }
    crp = {
        "_manhattan_distance_matrix_crp": K(TS, "_manhattan_distance_matrix_crp", [None, None, None, "float64", "float64"]),
        "_euclidean_distance_matrix_crp": K(TS, "_euclidean_distance_matrix_crp", [None, None, None, "float64", "float64"]),
        "_supremum_distance_matrix_crp": K(TS, "_supremum_distance_matrix_crp", [None, None, None, "float64", "float64"]),
    }
    return {"pyunicorn.timeseries.recurrence_plot": rp, "pyunicorn.timeseries.cross_recurrence_plot": crp,
            "pyunicorn.core.network": {"igraph": igraph_proxy()}}


def igraph_proxy():
    from .C19_py import IGraphProxy
    return IGraphProxy


def ts_mods():
    from pyunicorn.timeseries import recurrence_plot, cross_recurrence_plot, joint_recurrence_plot, recurrence_network, \
        joint_recurrence_network
    from pyunicorn.core import network
    return [recurrence_plot, cross_recurrence_plot, joint_recurrence_plot, recurrence_network, joint_recurrence_network, network]


def sym_series(n, prefix, nan=False):
    vals = []
    for i in range(n):
        v = z3.Real(f"{prefix}{i}")
        vals.append(SV(NF(z3.Bool(f"{prefix}nan{i}"), v)) if nan else SV(v))
    a = np.empty(n, dtype=object)
    for i, v in enumerate(vals):
        a[i] = v
    return SymNd(a)


def spec_R(x, metric, eps, n, dim=1):
    """[d(x_i, x_j) < eps] and neither state missing, as sx booleans (x: list of state vectors)"""
    out = {}
    for i in range(n):
        for j in range(n):
            d, sq = dist_spec(metric, x[i], x[j])
            if sq:
                c = or_(lt(d, mul(eps, eps)), False) if False else and_(sx.gt(eps, 0), lt(d, mul(eps, eps)))
            else:
                c = lt(d, eps)
            out[(i, j)] = c
    return out


def collect_bad(M, spec, n, m=None):
    m = n if m is None else m
    A = np.asarray(M, dtype=object)
    if A.shape != (n, m):
        return [True]
    bad = []
    for i in range(n):
        for j in range(m):
            v = pe._num(A[i, j])
            bad.append(ne(eq(v, 1), spec[(i, j)]))
            bad.append(not_(or_(eq(v, 0), eq(v, 1))))
    return [b for b in bad if b is not False]


def run_paths(name, hyps, harness, funcs, bound, sig, witfn, max_paths=256):
    ex = Explorer(hyps, max_paths=max_paths)
    try:
        paths = ex.run(harness)
    except pe.Unsupported as e:
        return result(name, INCONCLUSIVE, reason=f"unsupported: {e}", functions=funcs, bound=bound)
    finally:
        from pyunicorn.core.network import Network
        pe.clear_caches(Network)
        from pyunicorn.timeseries.recurrence_plot import RecurrencePlot
        pe.clear_caches(RecurrencePlot)
    nq = 0
    for p in paths:
        for lab, b in p.result:
            if b is True:
                return result(name, VIOLATED, functions=funcs, bound=bound, twin="sat", signature=f"{sig}|{lab}",
                              witness=witfn(None, lab))
            nq += 1
            v, m = Q.check(hyps + p.cond() + [b], 30, tag=f"{name}|{lab}")
            if v == "sat":
                m = core.normalised_model(hyps + p.cond() + [b], 30, tag=f"{name}|{lab}|normalise") or m
                return result(name, VIOLATED, functions=funcs, bound=bound, twin="sat", signature=f"{sig}|{lab}",
                              witness=witfn(m, lab))
            if v != "unsat":
                return result(name, INCONCLUSIVE, reason=f"unknown at {lab}", functions=funcs, bound=bound)
    if ex.truncated:
        return result(name, INCONCLUSIVE, reason="path cap reached", functions=funcs, bound=bound)
    return result(name, HELD, functions=funcs, bound=bound, twin="sat", detail=f"{ex.paths} paths, {nq} queries")


def ob_rp_threshold(name, cls_name, metric, n, nan):
    """RecurrencePlot / RecurrenceNetwork(ts, threshold=eps, missing_values=nan): R = thresholded distances, N consistent,
    network adjacency = R without diagonal"""
    from pyunicorn.timeseries import RecurrencePlot, RecurrenceNetwork
    cls = {"RecurrencePlot": RecurrencePlot, "RecurrenceNetwork": RecurrenceNetwork}[cls_name]
    funcs = [f"src/pyunicorn/timeseries/recurrence_plot.py RecurrencePlot.__init__/set_fixed_threshold/{metric}_distance_matrix",
             kern.module(TS).func_info(f"_{metric}_distance_matrix_rp")]
    x = sym_series(n, "x", nan)
    eps = SV(z3.Real("eps"))
    hyps = [eps.v > 0]
    xs = [[pe._num(v)] for v in x]
    spec = spec_R(xs, metric, eps.v, n)
    if nan:
        for i in range(n):
            for j in range(n):
                spec[(i, j)] = and_(spec[(i, j)], not_(xs[i][0].nan), not_(xs[j][0].nan))

    def harness(ex):
        with pe.patched(ts_mods(), ts_patches()):
            rp = cls(SymNd(np.array(list(x), dtype=object)), metric=metric, threshold=eps, missing_values=nan, silence_level=3)
            out = [("R", b) for b in collect_bad(rp.recurrence_matrix(), spec, n)]
            if not nan:
                out.append(("N", rp.N != n))
            if cls_name == "RecurrenceNetwork" and not nan:
                A = np.asarray(rp.adjacency, dtype=object)
                for i in range(n):
                    for j in range(n):
                        want = False if i == j else spec[(i, j)]
                        out.append(("adjacency", ne(eq(pe._num(A[i, j]), 1), want)))
            return [(l, b) for l, b in out if b is not False]

    def wit(m, lab):
        return {"kind": "rp-threshold", "cls": cls_name, "metric": metric, "nan": nan,
                "x": [sx.model_value(m, pe._num(v)) for v in x] if m else None, "eps": sx.model_value(m, eps.v) if m else None}
    return run_paths(name, hyps, harness, funcs, f"length {n}, {'NaN-able' if nan else 'real'} samples, real threshold>0",
                     f"C07|{cls_name}|threshold={metric}", wit)


def ob_rp_threshold_std(name, cls_name, n, dim, tau):
    """RecurrencePlot(ts, dim, tau, threshold_std=c): states are the delay vectors, recurrent iff their supremum distance is below
    c times the standard deviation of the TIME SERIES (as documented), i.e. d^2 < c^2 * var(ts) for d, c >= 0"""
    from pyunicorn.timeseries import RecurrencePlot, RecurrenceNetwork
    cls = {"RecurrencePlot": RecurrencePlot, "RecurrenceNetwork": RecurrenceNetwork}[cls_name]
    funcs = ["src/pyunicorn/timeseries/recurrence_plot.py RecurrencePlot.__init__/set_fixed_threshold_std/embed_time_series",
             kern.module(TS).func_info("_embed_time_series"), kern.module(TS).func_info("_supremum_distance_matrix_rp")]
    x = sym_series(n, "x")
    c = SV(z3.Real("c"))
    hyps = [c.v > 0]
    xs = [pe._num(v) for v in x]
    L = n - (dim - 1) * tau
    states = [[xs[k + j * tau] for j in range(dim)] for k in range(L)]
    mean = sx.div(sx.total(xs), n)
    var = sx.div(sx.total(mul(sub(v, mean), sub(v, mean)) for v in xs), n)
    spec = {}
    for i in range(L):
        for j in range(L):
            d, _ = dist_spec("supremum", states[i], states[j])
            spec[(i, j)] = lt(mul(d, d), mul(mul(c.v, c.v), var))

    def harness(ex):
        with pe.patched(ts_mods(), ts_patches()):
            rp = cls(SymNd(np.array(list(x), dtype=object)), metric="supremum", dim=dim, tau=tau, threshold_std=c, silence_level=3)
            out = [("R", b) for b in collect_bad(rp.recurrence_matrix(), spec, L)]
            out.append(("N", rp.N != L))
            return [(l, b) for l, b in out if b is not False]

    def wit(m, lab):
        return {"kind": "rp-threshold-std", "cls": cls_name, "dim": dim, "tau": tau,
                "x": [sx.model_value(m, v) for v in xs] if m else None, "c": sx.model_value(m, c.v) if m else None}
    return run_paths(name, hyps, harness, funcs, f"length {n}, dim={dim}, tau={tau}, real threshold_std>0",
                     f"C07|{cls_name}|threshold_std+embedding", wit)


def ob_jrp(name, n, lag, net):
    """JointRecurrencePlot / JointRecurrenceNetwork with lag: JR = product of the shifted blocks, N == JR.shape[0], and the
    quantification methods are applicable (recurrence_rate consistent with the matrix, line distributions do not raise)"""
    from pyunicorn.timeseries import JointRecurrencePlot, JointRecurrenceNetwork
    cls = JointRecurrenceNetwork if net else JointRecurrencePlot
    cname = cls.__name__
    funcs = [f"src/pyunicorn/timeseries/joint_recurrence_plot.py JointRecurrencePlot.__init__/set_fixed_threshold",
             "src/pyunicorn/timeseries/joint_recurrence_network.py JointRecurrenceNetwork.__init__"]
    x, y = sym_series(n, "x"), sym_series(n, "y")
    e1, e2 = SV(z3.Real("e1")), SV(z3.Real("e2"))
    hyps = [e1.v > 0, e2.v > 0]
    sx_ = spec_R([[pe._num(v)] for v in x], "supremum", e1.v, n)
    sy_ = spec_R([[pe._num(v)] for v in y], "supremum", e2.v, n)
    L = n - abs(lag)
    spec = {}
    for i in range(L):
        for j in range(L):
            if lag >= 0:
                spec[(i, j)] = and_(sx_[(i, j)], sy_[(i + lag, j + lag)])
            else:
                spec[(i, j)] = and_(sy_[(i, j)], sx_[(i - lag, j - lag)])

    def harness(ex):
        with pe.patched(ts_mods(), ts_patches()):
            jr = cls(SymNd(np.array(list(x), dtype=object)), SymNd(np.array(list(y), dtype=object)), threshold=(e1, e2), lag=lag,
                     silence_level=3)
            M = jr.recurrence_matrix()
            out = [("JR", b) for b in collect_bad(M, spec, L)]
            out.append(("N-consistent-with-matrix", jr.N != np.asarray(M).shape[0]))
            if net:
                A = np.asarray(jr.adjacency, dtype=object)
                if A.shape != (L, L):
                    out.append(("adjacency-shape", True))
                else:
                    for i in range(L):
                        for j in range(L):
                            want = False if i == j else spec[(i, j)]
                            out.append(("adjacency", ne(eq(pe._num(A[i, j]), 1), want)))
            return [(l, b) for l, b in out if b is not False]

    def wit(m, lab):
        return {"kind": "jrp", "net": net, "lag": lag, "x": [sx.model_value(m, pe._num(v)) for v in x] if m else [0.0] * n,
                "y": [sx.model_value(m, pe._num(v)) for v in y] if m else [0.0] * n,
                "e": [sx.model_value(m, e1.v), sx.model_value(m, e2.v)] if m else [1.0, 1.0]}
    return run_paths(name, hyps, harness, funcs, f"length {n}, lag {lag}", f"C07|{cname}|lag", wit)


def ob_crp(name, metric, n, m):
    from pyunicorn.timeseries import CrossRecurrencePlot
    funcs = ["src/pyunicorn/timeseries/cross_recurrence_plot.py CrossRecurrencePlot.__init__/set_fixed_threshold",
             kern.module(TS).func_info(f"_{metric}_distance_matrix_crp")]
    x, y = sym_series(n, "x"), sym_series(m, "y")
    eps = SV(z3.Real("eps"))
    hyps = [eps.v > 0]
    spec = {}
    for i in range(n):
        for j in range(m):
            d, sq = dist_spec(metric, [pe._num(x[i])], [pe._num(y[j])])
            spec[(i, j)] = lt(d, mul(eps.v, eps.v)) if sq else lt(d, eps.v)

    def harness(ex):
        with pe.patched(ts_mods(), ts_patches()):
            c = CrossRecurrencePlot(SymNd(np.array(list(x), dtype=object)), SymNd(np.array(list(y), dtype=object)), metric=metric,
                                    threshold=eps, silence_level=3)
            out = [("CR", b) for b in collect_bad(c.recurrence_matrix(), spec, n, m)]
            out.append(("N", c.N != n))
            out.append(("M", c.M != m))
            tot = sx.total(ite(spec[k], 1, 0) for k in spec)
            out.append(("cross_recurrence_rate", ne(pe._num(c.cross_recurrence_rate()), sx.div(tot, n * m))))
            return [(l, b) for l, b in out if b is not False]

    def wit(mm, lab):
        return {"kind": "crp", "metric": metric, "x": [sx.model_value(mm, pe._num(v)) for v in x] if mm else None,
                "y": [sx.model_value(mm, pe._num(v)) for v in y] if mm else None, "eps": sx.model_value(mm, eps.v) if mm else None}
    return run_paths(name, hyps, harness, funcs, f"lengths {n} x {m}, metric {metric}", f"C07|CrossRecurrencePlot|{metric}", wit)


def ob_rate(name, n, local):
    """fixed (local) recurrence rate: the threshold is the stated order statistic of the distances; locally every state gets the
    same number of recurrences when its distances are pairwise distinct"""
    from pyunicorn.timeseries import RecurrencePlot
    funcs = ["src/pyunicorn/timeseries/recurrence_plot.py RecurrencePlot.set_fixed_recurrence_rate/"
             "set_fixed_local_recurrence_rate/threshold_from_recurrence_rate"]
    x = sym_series(n, "x")
    rate = SV(z3.Real("rate"))
    hyps = [rate.v >= 0, rate.v <= 1]
    xs = [pe._num(v) for v in x]
    D = {(i, j): sx.abs_(sub(xs[i], xs[j])) for i in range(n) for j in range(n)}
    if local:
        for i in range(n):
            for j in range(n):
                for k in range(j + 1, n):
                    hyps.append(sx.ne(D[(i, j)], D[(i, k)]))

    def harness(ex):
        with pe.patched(ts_mods(), ts_patches()):
            kw = {"local_recurrence_rate": rate} if local else {"recurrence_rate": rate}
            rp = RecurrencePlot(SymNd(np.array(list(x), dtype=object)), metric="supremum", silence_level=3, **kw)
            R = np.asarray(rp.recurrence_matrix(), dtype=object)
            out = []
            if local:
                counts = [sx.total(pe._num(R[i, j]) for j in range(n)) for i in range(n)]
                for i in range(1, n):
                    out.append(("equal-local-counts", ne(counts[i], counts[0])))
            else:
                # R_ij = [d_ij < theta] for ONE theta which is itself one of the distances, and the number of distances strictly
                # below theta equals int(rate * (n*n - 1)) up to ties at theta
                cnt = sx.total(pe._num(R[i, j]) for i in range(n) for j in range(n))
                idx = sx.trunc(mul(rate.v, n * n - 1))
                out.append(("count<=index", sx.gt(cnt, idx)))
                for (i, j) in D:
                    for (k, l) in D:
                        # thresholding is monotone in the distance
                        out.append(("monotone", and_(eq(pe._num(R[i, j]), 1), eq(pe._num(R[k, l]), 0), sx.ge(D[(i, j)], D[(k, l)]))))
            return [(l, b) for l, b in out if b is not False]

    def wit(m, lab):
        return {"kind": "rate", "local": local, "x": [sx.model_value(m, v) for v in xs] if m else None,
                "rate": sx.model_value(m, rate.v) if m else None}
    return run_paths(name, hyps, harness, funcs, f"length {n}, rate in [0,1]" + (", pairwise distinct row distances" if local else ""),
                     f"C07|RecurrencePlot|{'local-' if local else ''}recurrence-rate", wit, max_paths=2000)


# --------------------------------------------------------------------------------------------- prepare / obligations
def prepare(tier):
    import numpy as np
    notes = []
    ok = 0

    def mk_rp(metric):
        def mk(rng, t):
            n, d = int(rng.integers(1, 7)), int(rng.integers(1, 4))
            E = np.round(rng.random((n, d)) * 8) / 4
            return [n, d, E], [n, d, kern.from_numpy(E, False)]
        return mk

    def mk_crp(metric):
        def mk(rng, t):
            n, m, d = int(rng.integers(1, 6)), int(rng.integers(1, 6)), int(rng.integers(1, 4))
            X, Y = np.round(rng.random((n, d)) * 8) / 4, np.round(rng.random((m, d)) * 8) / 4
            return [n, m, d, X, Y], [n, m, d, kern.from_numpy(X, False), kern.from_numpy(Y, False)]
        return mk
    cmp_ = lambda cres, cargs, ires, iargs: kcheck.close(cres, kern.to_numpy(ires), 1e-12)
    for metric in METRICS:
        ok += kcheck.validate_kernel(TS, f"_{metric}_distance_matrix_rp", mk_rp(metric), 4, cmp_, notes)
        ok += kcheck.validate_kernel(TS, f"_{metric}_distance_matrix_crp", mk_crp(metric), 4, cmp_, notes)

    def mk_e(rng, t):
        n, d, tau = int(rng.integers(3, 9)), int(rng.integers(1, 3)), int(rng.integers(1, 3))
        x = rng.random(n).astype("float32")
        L = n - (d - 1) * tau
        E = np.zeros((L, d), dtype="float32")
        return [n, d, tau, x, E], [n, d, tau, kern.from_numpy(x, False), Arr.full((L, d), 0.0, "float32")]
    ok += kcheck.validate_kernel(TS, "_embed_time_series", mk_e, 4,
                                 lambda cres, cargs, ires, iargs: kcheck.close(cargs[4], kern.to_numpy(iargs[4])), notes)
    return {"validated": ok, "validation": notes, "source": {"timeseries/_ext/numerics.pyx": kern.module(TS).sha}}


def obligations(tier):
    th = tier == "thorough"
    obs = []
    for metric in METRICS:
        for (n, dim) in ((2, 1), (3, 2), (4, 1)) + (((4, 2),) if th else ()):
            obs.append((ob_distance_kernel, dict(name=f"C07|_{metric}_distance_matrix_rp|n={n},dim={dim}", metric=metric, kind="rp", n=n, m=n, dim=dim), 600))
        for (n, m, dim) in ((1, 3, 1), (3, 2, 2), (2, 4, 1)):
            obs.append((ob_distance_kernel, dict(name=f"C07|_{metric}_distance_matrix_crp|{n}x{m},dim={dim}", metric=metric, kind="crp", n=n, m=m, dim=dim), 600))
    for (n, dim, tau) in ((3, 1, 1), (4, 2, 1), (5, 2, 2), (6, 3, 2)):
        obs.append((ob_embed, dict(name=f"C07|_embed_time_series|n={n},dim={dim},tau={tau}", n=n, dim=dim, tau=tau, array_variant=False), 300))
        obs.append((ob_embed, dict(name=f"C07|_embed_time_series_array|n={n},dim={dim},tau={tau}", n=n, dim=dim, tau=tau, array_variant=True), 300))
    for (n, k) in ((3, 1), (3, 2), (4, 2), (4, 3)) + (((5, 2), (5, 4)) if th else ()):
        obs.append((ob_adaptive, dict(name=f"C07|_set_adaptive_neighborhood_size|n={n},k={k}", n=n, k=k), 1200))
    for metric in METRICS:
        for n in ((2, 3) if not th else (2, 3, 4)):
            obs.append((ob_rp_threshold, dict(name=f"C07|RecurrencePlot|threshold|{metric}|n={n}", cls_name="RecurrencePlot", metric=metric, n=n, nan=False), 1200))
        obs.append((ob_rp_threshold, dict(name=f"C07|RecurrencePlot|threshold+missing|{metric}|n=3", cls_name="RecurrencePlot", metric=metric, n=3, nan=True), 1200))
        obs.append((ob_crp, dict(name=f"C07|CrossRecurrencePlot|threshold|{metric}|2x3", metric=metric, n=2, m=3), 1200))
    obs.append((ob_rp_threshold_std, dict(name="C07|RecurrencePlot|threshold_std+embedding|n=3,dim=2,tau=1", cls_name="RecurrencePlot", n=3, dim=2, tau=1), 1200))
    obs.append((ob_rp_threshold_std, dict(name="C07|RecurrencePlot|threshold_std|n=3,dim=1", cls_name="RecurrencePlot", n=3, dim=1, tau=1), 1200))
    obs.append((ob_rp_threshold, dict(name="C07|RecurrenceNetwork|threshold|supremum|n=3", cls_name="RecurrenceNetwork", metric="supremum", n=3, nan=False), 1200))
    for lag in (0, 1, -1, 2):
        n = 3 if abs(lag) < 2 else 4        # at least 2 states left after the shift
        obs.append((ob_jrp, dict(name=f"C07|JointRecurrencePlot|lag={lag}|n={n}", n=n, lag=lag, net=False), 1200))
        obs.append((ob_jrp, dict(name=f"C07|JointRecurrenceNetwork|lag={lag}|n={n}", n=n, lag=lag, net=True), 1200))
    obs.append((ob_rate, dict(name="C07|RecurrencePlot|recurrence_rate|n=2", n=2, local=False), 1500))
    obs.append((ob_rate, dict(name="C07|RecurrencePlot|local_recurrence_rate|n=3", n=3, local=True), 1500))
    if th:
        obs.append((ob_rate, dict(name="C07|RecurrencePlot|recurrence_rate|n=3", n=3, local=False), 3000))
    return obs


# --------------------------------------------------------------------------------------------- replay
def replay(w):
    import numpy as np
    from pyunicorn.timeseries import RecurrencePlot, RecurrenceNetwork, JointRecurrencePlot, JointRecurrenceNetwork, CrossRecurrencePlot
    from pyunicorn.timeseries._ext import numerics as TSN
    kind = w["kind"]
    f = core.to_float

    def dist(metric, a, b):
        d = np.abs(np.asarray(a, dtype=float) - np.asarray(b, dtype=float))
        return d.sum() if metric == "manhattan" else (np.sqrt((d * d).sum()) if metric == "euclidean" else d.max())
    if kind == "distance":
        X = np.array(f(w["X"]), dtype=float)
        Y = np.array(f(w["Y"]), dtype=float)
        if w["which"] == "rp":
            D = getattr(TSN, w["fn"])(X.shape[0], X.shape[1], X)
        else:
            D = getattr(TSN, w["fn"])(X.shape[0], Y.shape[0], X.shape[1], X, Y)
        ref = np.array([[dist(w["metric"], a, b) for b in Y] for a in X])
        return (not np.allclose(D, ref, rtol=1e-12)), f"{w['fn']}: {D.tolist()} formula {ref.tolist()}"
    if kind == "embed":
        x = np.array(f(w["x"]), dtype=float)
        n, dim, tau = w["n"], w["dim"], w["tau"]
        L = n - (dim - 1) * tau
        if w["array"]:
            E = np.zeros((2, L, dim))
            TSN._embed_time_series_array(2, n, dim, tau, x, E)
            ref = np.array([[[x[s, k + j * tau] for j in range(dim)] for k in range(L)] for s in range(2)])
        else:
            E = np.zeros((L, dim), dtype="float32")
            TSN._embed_time_series(n, dim, tau, x.astype("float32"), E)
            ref = np.array([[x[k + j * tau] for j in range(dim)] for k in range(L)])
        return (not np.allclose(E, ref, rtol=1e-6)), f"embedding {E.tolist()} expected {ref.tolist()}"
    if kind == "adaptive":
        n, k = w["n"], w["k"]
        SN = np.array(w["sorted_neighbors"], dtype="int32")
        R = np.zeros((n, n), dtype="int8")
        try:
            TSN._set_adaptive_neighborhood_size(n, k, SN, np.arange(n, dtype="int32"), R)
        except Exception as e:  # noqa
            return True, f"_set_adaptive_neighborhood_size(n={n}, k={k}, sorted_neighbors={SN.tolist()}) raised {type(e).__name__}: {e}"
        cnt = (R.sum(axis=1) - np.diag(R))
        return bool((cnt < k).any() or (R != R.T).any()), f"neighbour counts {cnt.tolist()} requested {k}; R={R.tolist()}"
    if kind == "rp-threshold":
        x = np.array([float("nan") if (isinstance(v, str) and v == "nan") or v != v else float(v) for v in f(w["x"])], dtype=float)
        eps = float(f(w["eps"]))
        cls = RecurrenceNetwork if w["cls"] == "RecurrenceNetwork" else RecurrencePlot
        rp = cls(x, metric=w["metric"], threshold=eps, missing_values=w["nan"], silence_level=3)
        n = len(x)
        ref = np.array([[1 if (x[i] == x[i] and x[j] == x[j] and dist(w["metric"], [x[i]], [x[j]]) < eps) else 0 for j in range(n)]
                        for i in range(n)])
        R = np.asarray(rp.recurrence_matrix())
        bad = R.shape != ref.shape or (R != ref).any()
        msg = f"{w['cls']}(x={x.tolist()}, threshold={eps}, metric={w['metric']}): R={R.tolist()} thresholded distances {ref.tolist()}"
        if not bad and w["cls"] == "RecurrenceNetwork" and not w["nan"]:
            A = rp.adjacency
            bad = (A != ref - np.eye(n, dtype=int)).any()
            msg += f" adjacency {A.tolist()}"
        return bool(bad), msg
    if kind == "rp-threshold-std":
        x = np.array(f(w["x"]), dtype=float)
        c = float(f(w["c"]))
        cls = RecurrenceNetwork if w["cls"] == "RecurrenceNetwork" else RecurrencePlot
        rp = cls(x, metric="supremum", dim=w["dim"], tau=w["tau"], threshold_std=c, silence_level=3)
        L = len(x) - (w["dim"] - 1) * w["tau"]
        emb = np.array([[x[k + j * w["tau"]] for j in range(w["dim"])] for k in range(L)])
        D = np.abs(emb[:, None, :] - emb[None, :, :]).max(axis=2)
        ref = (D < c * x.std()).astype(int)
        R = np.asarray(rp.recurrence_matrix())
        return bool(R.shape != ref.shape or (R != ref).any()), f"x={x.tolist()} dim={w['dim']} tau={w['tau']} threshold_std={c}: R={R.tolist()} expected {ref.tolist()}"
    if kind == "jrp":
        x, y = np.array(f(w["x"]), dtype=float), np.array(f(w["y"]), dtype=float)
        e = [float(v) for v in f(w["e"])]
        cls = JointRecurrenceNetwork if w["net"] else JointRecurrencePlot
        try:
            jr = cls(x, y, threshold=tuple(e), lag=w["lag"], silence_level=3)
        except Exception as ex:  # noqa
            return True, f"{cls.__name__}(lag={w['lag']}) raised {type(ex).__name__}: {ex}"
        M = jr.recurrence_matrix()
        probs = []
        if jr.N != M.shape[0]:
            probs.append(f"N={jr.N} but the joint recurrence matrix is {M.shape[0]}x{M.shape[1]}")
        try:
            rr = jr.recurrence_rate()
            if abs(rr - M.sum() / M.size) > 1e-12:
                probs.append(f"recurrence_rate()={rr} but the matrix has density {M.sum() / M.size}")
            jr.vertline_dist()
            jr.diagline_dist()
        except Exception as ex:  # noqa
            probs.append(f"quantification raised {type(ex).__name__}: {ex}")
        return bool(probs), f"{cls.__name__}(n={len(x)}, lag={w['lag']}): " + "; ".join(probs)
    if kind == "crp":
        x, y = np.array(f(w["x"]), dtype=float), np.array(f(w["y"]), dtype=float)
        eps = float(f(w["eps"]))
        c = CrossRecurrencePlot(x, y, metric=w["metric"], threshold=eps, silence_level=3)
        ref = np.array([[1 if dist(w["metric"], [a], [b]) < eps else 0 for b in y] for a in x])
        CR = c.recurrence_matrix()
        bad = (CR != ref).any() or c.N != len(x) or c.M != len(y) or abs(c.cross_recurrence_rate() - ref.mean()) > 1e-12
        return bool(bad), f"CrossRecurrencePlot: CR={CR.tolist()} expected {ref.tolist()} N={c.N} M={c.M}"
    if kind == "rate":
        x = np.array(f(w["x"]), dtype=float)
        rate = float(f(w["rate"]))
        n = len(x)
        kw = {"local_recurrence_rate": rate} if w["local"] else {"recurrence_rate": rate}
        rp = RecurrencePlot(x, metric="supremum", silence_level=3, **kw)
        R = rp.recurrence_matrix()
        if w["local"]:
            cnt = R.sum(axis=1)
            return bool((cnt != cnt[0]).any()), f"local recurrence rate {rate}: row counts {cnt.tolist()} for x={x.tolist()}"
        D = np.abs(x[:, None] - x[None, :])
        bad = R.sum() > int(rate * (n * n - 1))
        if not bad:
            for i in range(n):
                for j in range(n):
                    for k in range(n):
                        for l in range(n):
                            if R[i, j] == 1 and R[k, l] == 0 and D[i, j] >= D[k, l]:
                                bad = True
        return bool(bad), f"recurrence rate {rate}: R={R.tolist()} for x={x.tolist()}"
    return False, "unknown witness kind"
