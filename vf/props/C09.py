"""C09 — similarity networks link exactly the pairs above the threshold (Engine P on ClimateNetwork)."""
import itertools

import numpy as np
import z3

from .. import core, kern, pe, pnet, sx
from ..core import HELD, INCONCLUSIVE, VIOLATED, Q, result
from ..pe import SV, Explorer, SymNd
from ..sx import add, and_, eq, ge, gt, ite, le, lt, mul, ne, not_, or_, sub

PROP = "C09"
META = {
    "bounds": "N<=3 nodes; similarity entries symbolic of any sign (symmetric or not), threshold symbolic, requested density symbolic in "
              "[0,1]; setter sequences of length <=2; non_local on/off with the distance weight as an uninterpreted tanh in (-1,1)",
    "assumptions": ["exact real arithmetic, dtype erasure (the float32 cast of the similarity matrix is not modelled)",
                    "tanh / cos / arccos uninterpreted; the damping factor 0.5*(tanh(..)+1) is only known to lie in (0,1)",
                    "sorting by forking on comparisons; int((1-rho)*(N^2-N)) by forking on its value"],
    "outside": ["how subclasses compute the similarity from data (C10)", "link_density_function (np.histogram)"],
}


def mods():
    from pyunicorn.climate import climate_network
    from pyunicorn.core import geo_network, spatial_network, network, geo_grid, grid
    return [climate_network, geo_network, spatial_network, network, geo_grid, grid]


def patches():
    from .C19_py import IGraphProxy
    K = pnet.kernel_shim
    return {"pyunicorn.core.network": {"igraph": IGraphProxy},
            "pyunicorn.core.geo_grid": {"_calculate_angular_distance": K("core", "_calculate_angular_distance",
                                                                        ["float32", "float32", "float32", "float32", "float32", None])}}


def make_grid(N):
    from pyunicorn.core import GeoGrid
    lat = SymNd(np.array([SV(z3.Real(f"lat{i}")) for i in range(N)], dtype=object))
    lon = SymNd(np.array([SV(z3.Real(f"lon{i}")) for i in range(N)], dtype=object))
    return GeoGrid(SymNd(np.array([0, 1], dtype=object)), lat, lon, 3)


def sym_similarity(N, symmetric, diag):
    S = np.empty((N, N), dtype=object)
    hyps = []
    for i in range(N):
        for j in range(N):
            if i == j:
                S[i, j] = SV(sx.Fraction(diag)) if diag is not None else SV(z3.Real(f"s_{i}_{i}"))
            elif symmetric and j < i:
                S[i, j] = S[j, i]
            else:
                S[i, j] = SV(z3.Real(f"s_{i}_{j}"))
    return S, hyps


def absv(x):
    return sx.abs_(pe._num(x))


def consistency(net, N, A_expected, directed):
    """adjacency / n_links / link_density mutually consistent and equal to the expectation"""
    out = []
    A = np.asarray(net.adjacency, dtype=object)
    if A.shape != (N, N):
        return [("adjacency-shape", True)]
    for i in range(N):
        for j in range(N):
            out.append((f"adjacency[{i},{j}]", ne(eq(pe._num(A[i, j]), 1), A_expected[(i, j)])))
    tot = sx.total(ite(A_expected[k], 1, 0) for k in A_expected)
    out.append(("n_links", ne(pe._num(net.n_links), tot if directed else sx.div(tot, 2))))
    out.append(("link_density", ne(pe._num(net.link_density), sx.div(tot, N * (N - 1)))))
    return out


def ob_threshold(name, N, symmetric, directed, non_local, seq, toggle=False):
    from pyunicorn.climate import ClimateNetwork
    funcs = ["src/pyunicorn/climate/climate_network.py ClimateNetwork.__init__/set_threshold/set_non_local/_calculate_threshold_adjacency/"
             "_calculate_non_local_adjacency/threshold", "src/pyunicorn/core/network.py Network.__init__/adjacency.setter"]
    S, hyps = sym_similarity(N, symmetric, None)
    thetas = [SV(z3.Real(f"theta{k}")) for k in range(seq)]
    damp = {}

    def harness(ex):
        out = []
        with pe.patched(mods(), patches()):
            grid = make_grid(N)
            net = ClimateNetwork(grid, SymNd(S.copy()), threshold=thetas[0], non_local=non_local, directed=directed, silence_level=3)
            if non_local or toggle:
                # damping weights as the library computes them (uninterpreted tanh): read back from a direct evaluation
                W = 0.5 * (pe.NP.tanh(20 * (grid.angular_distance() - 0.05)) + 1)
                for i in range(N):
                    for j in range(N):
                        damp[(i, j)] = pe._num(W[i, j])

            def damp_of(i, j):
                return damp[(i, j)]
            for k in range(seq):
                if k > 0:
                    net.set_threshold(thetas[k])
                exp = {}
                for i in range(N):
                    for j in range(N):
                        s_ = absv(S[i, j])
                        if non_local:
                            s_ = mul(s_, damp[(i, j)])
                        exp[(i, j)] = False if i == j else gt(s_, thetas[k].v)
                out += [(f"step{k}:{l}", b) for l, b in consistency(net, N, exp, directed)]
                out.append((f"step{k}:threshold()", ne(pe._num(net.threshold()), thetas[k].v)))
                if symmetric and not non_local:
                    A = np.asarray(net.adjacency, dtype=object)
                    for i in range(N):
                        for j in range(i):
                            out.append((f"step{k}:symmetric", ne(pe._num(A[i, j]), pe._num(A[j, i]))))
            if toggle:
                # switch the distance weighting off again: plain thresholding of the ORIGINAL similarities
                net.set_non_local(not non_local)
                exp = {}
                for i in range(N):
                    for j in range(N):
                        s_ = absv(S[i, j])
                        if not non_local:
                            s_ = mul(s_, damp_of(i, j))
                        exp[(i, j)] = False if i == j else gt(s_, thetas[-1].v)
                out += [(f"toggle:{l}", b) for l, b in consistency(net, N, exp, directed)]
            # the stored similarity measure is still |S|
            SM = np.asarray(net.similarity_measure(), dtype=object)
            for i in range(N):
                for j in range(N):
                    out.append(("similarity_measure-unchanged", ne(pe._num(SM[i, j]), absv(S[i, j]))))
        return [(l, b) for l, b in out if b is not False]

    def wit(m, lab):
        ev = lambda x: sx.model_value(m, pe._num(x))
        return {"kind": "threshold", "S": [[ev(S[i, j]) for j in range(N)] for i in range(N)], "thetas": [ev(t) for t in thetas],
                "directed": directed, "non_local": non_local, "label": lab}
    from .C07 import run_paths
    return run_paths(name, hyps, harness, funcs,
                     f"N={N}, {'symmetric' if symmetric else 'arbitrary'} similarity of any sign, directed={directed}, non_local={non_local}, "
                     f"{seq} threshold(s)", "C09|ClimateNetwork|threshold", wit, max_paths=600)


def ob_density(name, N, diag, via_setter, directed=False):
    """link density request rho: realised <= rho and rho - realised <= ties/(N(N-1)); directed: asymmetric similarity, all ordered pairs"""
    from pyunicorn.climate import ClimateNetwork
    funcs = ["src/pyunicorn/climate/climate_network.py ClimateNetwork.threshold_from_link_density/set_link_density/__init__"]
    S, hyps = sym_similarity(N, not directed, diag)
    rho = SV(z3.Real("rho"))
    hyps += [rho.v >= 0, rho.v <= 1]
    for i in range(N):
        for j in range(N):
            if i != j and (directed or i < j):
                hyps += [S[i, j].v >= 0, S[i, j].v <= 1]
    pairs = [(i, j) for i in range(N) for j in range(N) if i != j]

    def harness(ex):
        out = []
        with pe.patched(mods(), patches()):
            grid = make_grid(N)
            if via_setter:
                net = ClimateNetwork(grid, SymNd(S.copy()), threshold=sx.Fraction(1, 2), directed=directed, silence_level=3)
                net.set_link_density(rho)
            else:
                net = ClimateNetwork(grid, SymNd(S.copy()), link_density=rho, directed=directed, silence_level=3)
            theta = pe._num(net.threshold())
            real = sx.div(sx.total(ite(gt(pe._num(S[i, j]), theta), 1, 0) for (i, j) in pairs), len(pairs))
            ties = sx.div(sx.total(ite(eq(pe._num(S[i, j]), theta), 1, 0) for (i, j) in pairs), len(pairs))
            out.append(("realised<=requested", gt(real, rho.v)))
            out.append(("requested-realised<=ties", gt(sub(rho.v, real), ties)))
            out.append(("link_density-attribute", ne(pe._num(net.link_density), real)))
        return [(l, b) for l, b in out if b is not False]

    def wit(m, lab):
        ev = lambda x: sx.model_value(m, pe._num(x))
        return {"kind": "density", "S": [[ev(S[i, j]) for j in range(N)] for i in range(N)], "rho": ev(rho), "via_setter": via_setter, "label": lab,
                "directed": directed}
    from .C07 import run_paths
    return run_paths(name, hyps, harness, funcs,
                     f"N={N}, {'asymmetric (directed network)' if directed else 'symmetric'} similarity in [0,1] with diagonal {diag if diag is not None else 'symbolic'}, symbolic density in [0,1]",
                     f"C09|ClimateNetwork|link-density|diag={diag}" + ("|directed" if directed else ""), wit, max_paths=6000 if not directed else 40000)


def prepare(tier):
    return {"validated": 0, "validation": []}


def obligations(tier):
    th = tier == "thorough"
    obs = []
    for N in ((2, 3) if not th else (2, 3, 4)):
        for symmetric, directed in ((True, False), (False, True)):
            obs.append((ob_threshold, dict(name=f"C09|threshold|N={N}|sym={symmetric}|directed={directed}", N=N, symmetric=symmetric,
                                           directed=directed, non_local=False, seq=1), 1500))
    obs.append((ob_threshold, dict(name="C09|set_threshold sequence|N=3", N=3, symmetric=True, directed=False, non_local=False, seq=2), 1500))
    obs.append((ob_threshold, dict(name="C09|threshold|non_local|N=2", N=2, symmetric=True, directed=False, non_local=True, seq=1), 1500))
    obs.append((ob_threshold, dict(name="C09|non_local: set_threshold twice, then set_non_local(False)|N=2", N=2, symmetric=True, directed=False,
                                   non_local=True, seq=2, toggle=True), 1500))
    obs.append((ob_threshold, dict(name="C09|set_threshold, then set_non_local(True)|N=2", N=2, symmetric=True, directed=False,
                                   non_local=False, seq=1, toggle=True), 1500))
    obs.append((ob_density, dict(name="C09|link density|N=2|unit diagonal", N=2, diag=1, via_setter=False), 2400))
    obs.append((ob_density, dict(name="C09|link density|N=3|unit diagonal", N=3, diag=1, via_setter=False), 3000))
    obs.append((ob_density, dict(name="C09|set_link_density|N=3|unit diagonal", N=3, diag=1, via_setter=True), 3000))
    obs.append((ob_density, dict(name="C09|link density|N=3|zero diagonal (as the mutual-information estimator leaves it)", N=3, diag=0, via_setter=False), 3000))
    obs.append((ob_density, dict(name="C09|link density|N=2|directed, asymmetric similarity", N=2, diag=1, via_setter=False, directed=True), 3000))
    obs.append((ob_density, dict(name="C09|set_link_density|N=2|directed, asymmetric similarity", N=2, diag=1, via_setter=True, directed=True), 3000))
    if th:
        obs.append((ob_density, dict(name="C09|link density|N=3|directed, asymmetric similarity", N=3, diag=1, via_setter=False, directed=True), 7200))
    return obs


def replay(w):
    from pyunicorn.core import GeoGrid
    from pyunicorn.climate import ClimateNetwork
    f = core.to_float
    S = np.array(f(w["S"]), dtype=float)
    N = len(S)
    grid = GeoGrid(np.arange(2), np.linspace(0, 40, N), np.linspace(0, 50, N), 3)
    if w["kind"] == "threshold":
        th = [float(x) for x in f(w["thetas"])]
        net = ClimateNetwork(grid, S, threshold=th[0], non_local=w["non_local"], directed=w["directed"], silence_level=3)
        probs = []
        for k, t in enumerate(th):
            if k:
                net.set_threshold(t)
            sim = np.abs(S.astype("float32"))
            if w["non_local"]:
                sim = sim * (0.5 * (np.tanh(20 * (grid.angular_distance() - 0.05)) + 1))
            ref = (sim > t).astype(int)
            np.fill_diagonal(ref, 0)
            A = net.adjacency
            if (A != ref).any():
                probs.append(f"step {k}: adjacency {A.tolist()} expected {ref.tolist()}")
            nl = ref.sum() if w["directed"] else ref.sum() / 2
            if net.n_links != nl or abs(net.link_density - ref.sum() / (N * (N - 1))) > 1e-12 or net.threshold() != t:
                probs.append(f"step {k}: n_links={net.n_links} link_density={net.link_density} threshold()={net.threshold()} expected {nl}, {ref.sum() / (N * (N - 1))}, {t}")
        if "toggle" in w.get("label", "") or "similarity_measure" in w.get("label", ""):
            nl = w["non_local"]
            if "toggle" in w.get("label", ""):
                net.set_non_local(not nl)
                nl = not nl
                sim = np.abs(S.astype("float32"))
                if nl:
                    sim = sim * (0.5 * (np.tanh(20 * (grid.angular_distance() - 0.05)) + 1))
                ref = (sim > th[-1]).astype(int)
                np.fill_diagonal(ref, 0)
                if (net.adjacency != ref).any():
                    probs.append(f"after set_non_local({nl}): adjacency {net.adjacency.tolist()} expected {ref.tolist()}")
            if not np.allclose(net.similarity_measure(), np.abs(S.astype("float32"))):
                probs.append(f"similarity_measure() changed to {net.similarity_measure().tolist()}")
        return bool(probs), f"S={S.tolist()} thresholds={th}: " + "; ".join(probs[:2])
    rho = float(f(w["rho"]))
    if w["via_setter"]:
        net = ClimateNetwork(grid, S, threshold=0.5, directed=bool(w.get("directed")), silence_level=3)
        net.set_link_density(rho)
    else:
        net = ClimateNetwork(grid, S, link_density=rho, directed=bool(w.get("directed")), silence_level=3)
    theta = net.threshold()
    off = ~np.eye(N, dtype=bool)
    sim = np.abs(S.astype("float32"))
    real = (sim[off] > theta).mean()
    ties = (sim[off] == theta).mean()
    probs = []
    if real > rho + 1e-12:
        probs.append(f"realised density {real} exceeds the requested {rho}")
    if rho - real > ties + 1e-12:
        probs.append(f"realised density {real} misses the requested {rho} by more than the ties at the threshold ({ties})")
    if abs(net.link_density - real) > 1e-12:
        probs.append(f"link_density attribute {net.link_density} vs realised {real}")
    return bool(probs), f"S={S.tolist()} requested density {rho}: threshold {theta}; " + "; ".join(probs)
