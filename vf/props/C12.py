"""C12 — grid distances equal closed-form geometry and are metrics (Engine K + P).

Decided here: exact symmetry, clamping to [-1, 1] for every float32 input (IEEE domain), argument 1 on the diagonal in
exact arithmetic, Euclidean closed form / zero diagonal / triangle inequality in exact arithmetic, nearest-node lookup,
rectangular grids as Cartesian products, node weights from each node's own latitude.
NOT decidable by this family: the numerical error bounds of the statement (rounding of transcendental functions)."""
import itertools

import numpy as np
import z3

from .. import core, kern, kcheck, pe, pnet, sx
from ..core import HELD, INCONCLUSIVE, VIOLATED, Q, result
from ..kcheck import decide, mv, mv_arr
from ..kern import Arr, Run
from ..pe import SV, Explorer, SymNd
from ..sx import add, and_, eq, ge, gt, ite, le, lt, mul, ne, not_, or_, sub

PROP = "C12"
CO = "core"
META = {
    "bounds": "angular kernel: N<=4 nodes (exact reals with sin^2+cos^2=1; IEEE float32 for the clamp with N=2); Euclidean kernel: "
              "N<=3 nodes, dim<=2 (3 thorough); lookups N<=3; rectangular grids up to 3x3",
    "assumptions": ["cos / sin / arccos are uninterpreted (equal arguments give equal values); sqrt as algebraic variable",
                    "exact arithmetic except the clamp lemma"],
    "outside": ["the error bounds 2^-10 rad / 2^-20 relative and the triangle inequality 'up to the same error' for angles "
                "(rounding of transcendental functions: not decidable by SMT)", "region_indices (matplotlib Path)"],
}


def ob_angular_exact(name, n, trig=True):
    """symmetric; diagonal argument = 1 when sin^2+cos^2 = 1; value = clamped spherical cosine formula.
    trig=False: the four inputs are arbitrary reals in [-1, 1] (what rounded float32 sines/cosines are), so the
    unclamped expression can leave [-1, 1] on both sides and the two-sided clamp is exercised"""
    mod = kern.module(CO)
    fn = "_calculate_angular_distance"
    cl, sl, co, so = (kern.sym_real_arr((n,), p) for p in ("cl", "sl", "co", "so"))
    hyps = []
    for i in range(n):
        if trig:
            hyps += [cl.data[i] * cl.data[i] + sl.data[i] * sl.data[i] == 1, co.data[i] * co.data[i] + so.data[i] * so.data[i] == 1]
        else:
            for a in (cl, sl, co, so):
                hyps += [a.data[i] >= -1, a.data[i] <= 1]
    out = Arr.full((n, n), kern.UNDEF, "float32")
    run = Run(mod, loop_bound=n + 1, hyps=hyps)
    run.call(fn, [cl, sl, co, so, out, n])
    bad = [not_(run.ok())]
    for i in range(n):
        for j in range(n):
            v = out.get(i, j)
            if v is kern.UNDEF:
                bad.append(True)
                continue
            e = add(mul(sl.data[i], sl.data[j]), mul(mul(cl.data[i], cl.data[j]), add(mul(so.data[i], so.data[j]), mul(co.data[i], co.data[j]))))
            spec = ite(gt(e, 1), 1, ite(lt(e, -1), -1, e))
            bad.append(ne(v, spec))
            bad.append(ne(v, out.get(j, i)))
            bad.append(or_(gt(v, 1), lt(v, -1)))
        if trig:
            bad.append(ne(out.get(i, i), 1))

    def wit(m):
        return {"kind": "angular", "cos_lat": mv_arr(m, cl), "sin_lat": mv_arr(m, sl), "cos_lon": mv_arr(m, co), "sin_lon": mv_arr(m, so)}
    return decide(name, hyps + run.assumptions, bad, [mod.func_info(fn)], f"N={n}, reals with sin^2+cos^2=1" if trig else f"N={n}, arbitrary reals in [-1,1]",
                  "C12|_calculate_angular_distance|clamped-cosine-formula", wit, timeout=120)


def ob_angular_clamp_fp(name):
    """IEEE float32 clamp: whatever value the float arithmetic produces (results of + and * are treated as arbitrary
    float32 values -- a sound over-approximation), the stored cosine is NaN or lies in [-1, 1], and the matrix is symmetric.
    (NaN cannot arise for finite inputs of magnitude <= 1: |expr| <= 3, no overflow or invalid operation -- argued on paper.)"""
    mod = kern.module(CO)
    fn = "_calculate_angular_distance"
    n = 2
    F = sx.F32
    vs = {p: [z3.FP(f"{p}{i}", F) for i in range(n)] for p in ("cl", "sl", "co", "so")}
    out = Arr.full((n, n), kern.UNDEF, "float32")
    sx.ABSTRACT_FP[0] = True
    try:
        run = Run(mod, loop_bound=n + 1, domain="F", feas_timeout_ms=300)
        run.call(fn, [Arr((n,), vs["cl"], "float32"), Arr((n,), vs["sl"], "float32"), Arr((n,), vs["co"], "float32"),
                      Arr((n,), vs["so"], "float32"), out, n])
    finally:
        sx.ABSTRACT_FP[0] = False
    bad = []
    for i in range(n):
        for j in range(n):
            v = out.get(i, j)
            bad.append(z3.And(z3.Not(z3.fpIsNaN(v)), z3.Or(z3.fpGT(v, z3.FPVal(1.0, F)), z3.fpLT(v, z3.FPVal(-1.0, F)))))
    bad.append(z3.And(z3.Not(z3.fpIsNaN(out.get(0, 1))), z3.Not(z3.fpEQ(out.get(0, 1), out.get(1, 0)))))

    def wit(m):
        return {"kind": "angular-clamp", "note": "abstract arithmetic model; replay samples extreme inputs"}
    return decide(name, run.assumptions, bad, [mod.func_info(fn)],
                  "N=2, arbitrary float32 results of the arithmetic (over-approximation), IEEE comparisons with the declared C types",
                  "C12|_calculate_angular_distance|clamp-range", wit, timeout=300, twin=False)


def ob_euclid(name, n, dim):
    mod = kern.module(CO)
    fn = "_calculate_euclidean_distance"
    X = kern.sym_real_arr((dim, n), "x")
    out = Arr.full((n, n), kern.UNDEF, "float32")
    run = Run(mod, loop_bound=max(n, dim) + 1)
    run.call(fn, [X, out, dim, n])
    bad = [not_(run.ok())]
    for i in range(n):
        for j in range(n):
            d = out.get(i, j)
            sq = sx.total(mul(sub(X.get(k, i), X.get(k, j)), sub(X.get(k, i), X.get(k, j))) for k in range(dim))
            bad.append(or_(lt(d, 0), ne(mul(d, d), sq)))
            bad.append(ne(d, out.get(j, i)))
        bad.append(ne(out.get(i, i), 0))
    if n >= 3:
        for i, j, k in itertools.permutations(range(n), 3):
            bad.append(gt(out.get(i, k), add(out.get(i, j), out.get(j, k))))

    def wit(m):
        return {"kind": "euclid", "x": mv_arr(m, X)}
    return decide(name, run.assumptions, bad, [mod.func_info(fn)], f"{n} points in dimension {dim}, reals",
                  "C12|_calculate_euclidean_distance|closed-form-metric", wit, timeout=300)


def mods():
    from pyunicorn.core import grid, geo_grid, geo_network, network, spatial_network
    return [grid, geo_grid, geo_network, network, spatial_network]


def sym_vec(n, prefix):
    a = np.empty(n, dtype=object)
    for i in range(n):
        a[i] = SV(z3.Real(f"{prefix}{i}"))
    return SymNd(a)


def ob_grid_lookup(name, n, dim):
    """Grid.node_number returns a node at minimal (squared) Euclidean distance"""
    from pyunicorn.core import Grid
    funcs = ["src/pyunicorn/core/grid.py Grid.node_number"]
    coords = np.empty((dim, n), dtype=object)
    for k in range(dim):
        for i in range(n):
            coords[k, i] = SV(z3.Real(f"c_{k}_{i}"))
    q = [SV(z3.Real(f"q{k}")) for k in range(dim)]

    def harness(ex):
        with pe.patched(mods()):
            g = Grid(SymNd(np.array([0, 1], dtype=object)), SymNd(coords.copy()), 3)
            r = int(g.node_number(list(q)))
        sq = [sx.total(mul(sub(coords[k, i].v, q[k].v), sub(coords[k, i].v, q[k].v)) for k in range(dim)) for i in range(n)]
        return [("nearest", or_(*[lt(sq[i], sq[r]) for i in range(n)]))]

    def wit(m, lab):
        return {"kind": "lookup", "coords": [[sx.model_value(m, coords[k, i].v) for i in range(n)] for k in range(dim)],
                "q": [sx.model_value(m, x.v) for x in q]}
    from .C07 import run_paths
    return run_paths(name, [], harness, funcs, f"{n} nodes in dimension {dim}, real query point", "C12|Grid.node_number", wit, 500)


def ob_rect_grid(name, nlat, nlon):
    """coord_sequence_from_rect_grid enumerates exactly the Cartesian product in the documented order (lat fastest)"""
    from pyunicorn.core import GeoGrid, Grid
    funcs = ["src/pyunicorn/core/grid.py Grid.coord_sequence_from_rect_grid", "src/pyunicorn/core/geo_grid.py GeoGrid.coord_sequence_from_rect_grid/RegularGrid"]
    la, lo = sym_vec(nlat, "la"), sym_vec(nlon, "lo")

    def harness(ex):
        with pe.patched(mods()):
            ls, os_ = GeoGrid.coord_sequence_from_rect_grid(la, lo)
            g = GeoGrid.RegularGrid(SymNd(np.array([0, 1, 2], dtype=object)), (la, lo), 3)
        out = []
        ls, os_ = np.asarray(ls, dtype=object), np.asarray(os_, dtype=object)
        if ls.shape != (nlat * nlon,) or os_.shape != (nlat * nlon,):
            return [("shape", True)]
        # multiset of pairs == product, and the documented order: np.meshgrid(lat, lon) flattened in 'F' order
        k = 0
        for i in range(nlat):          # 'F' order of a (nlon, nlat) meshgrid: lon index fastest
            for j in range(nlon):
                out.append(("order", or_(ne(pe._num(ls[k]), la[i].v), ne(pe._num(os_[k]), lo[j].v))))
                k += 1
        out.append(("N", g.N != nlat * nlon))
        return [(l, b) for l, b in out if b is not False]

    def wit(m, lab):
        return {"kind": "rect", "lat": [sx.model_value(m, x.v) for x in la] if m else list(range(nlat)),
                "lon": [sx.model_value(m, x.v) for x in lo] if m else list(range(nlon))}
    from .C07 import run_paths
    return run_paths(name, [], harness, funcs, f"{nlat} x {nlon} rectangular grid, symbolic axes", "C12|coord_sequence_from_rect_grid", wit)


def ob_node_weights(name, n, wtype):
    """geographic node weights use the cosine of each node's own latitude (uninterpreted cos, structural equality)"""
    from pyunicorn.core import GeoGrid, GeoNetwork
    funcs = ["src/pyunicorn/core/geo_network.py GeoNetwork.set_node_weight_type", "src/pyunicorn/core/geo_grid.py GeoGrid.cos_lat"]
    lat, lon = sym_vec(n, "lat"), sym_vec(n, "lon")
    G = [[1 if abs(i - j) == 1 else 0 for j in range(n)] for i in range(n)]

    def harness(ex):
        from .C19_py import IGraphProxy
        with pe.patched(mods(), {"pyunicorn.core.network": {"igraph": IGraphProxy}}):
            grid = GeoGrid(SymNd(np.array([0, 1], dtype=object)), lat, lon, 3)
            A, present = pnet.concrete_adjacency(G)
            net = GeoNetwork(grid, adjacency=A, node_weight_type=wtype, silence_level=3)
            w = np.asarray(net.node_weights, dtype=object)
            out = []
            for i in range(n):
                c = pe.ufun("cos", sx.div(mul(lat[i].v, pe._num(np.pi)), 180))
                exp = c if wtype == "surface" else (mul(c, c) if wtype == "irrigation" else 1)
                out.append((f"weight-of-node-{i}", ne(pe._num(w[i]), exp)))
            out.append(("total", ne(pe._num(net.total_node_weight), sx.total(pe._num(x) for x in w))))
            return [(l, b) for l, b in out if b is not False]

    def wit(m, lab):
        return {"kind": "weights", "lat": [sx.model_value(m, x.v) for x in lat], "lon": [sx.model_value(m, x.v) for x in lon], "type": wtype}
    from .C07 import run_paths
    return run_paths(name, [], harness, funcs, f"{n} nodes, node_weight_type={wtype!r}", "C12|GeoNetwork.node_weights", wit)


def prepare(tier):
    import numpy as np
    notes = []
    ok = 0

    def mk_a(rng, t):
        n = int(rng.integers(1, 7))
        lat, lon = rng.uniform(-90, 90, n), rng.uniform(-180, 180, n)
        a = [np.cos(np.radians(lat)).astype("float32"), np.sin(np.radians(lat)).astype("float32"),
             np.cos(np.radians(lon)).astype("float32"), np.sin(np.radians(lon)).astype("float32")]
        out = np.zeros((n, n), dtype="float32")
        return a + [out, n], [kern.from_numpy(x, False) for x in a] + [Arr.full((n, n), 0.0, "float32"), n]
    ok += kcheck.validate_kernel(CO, "_calculate_angular_distance", mk_a, 4,
                                 lambda cres, cargs, ires, iargs: kcheck.close(cargs[4], kern.to_numpy(iargs[4]), 1e-5), notes)

    def mk_e(rng, t):
        n, d = int(rng.integers(1, 6)), int(rng.integers(1, 4))
        x = (np.round(rng.random((d, n)) * 8) / 4).astype("float32")
        out = np.zeros((n, n), dtype="float32")
        return [x, out, d, n], [kern.from_numpy(x, False), Arr.full((n, n), 0.0, "float32"), d, n]
    ok += kcheck.validate_kernel(CO, "_calculate_euclidean_distance", mk_e, 4,
                                 lambda cres, cargs, ires, iargs: kcheck.close(cargs[1], kern.to_numpy(iargs[1]), 1e-5), notes)
    return {"validated": ok, "validation": notes, "source": {"core/_ext/numerics.pyx": kern.module(CO).sha}}


def obligations(tier):
    th = tier == "thorough"
    obs = []
    for n in ((1, 2) if not th else (1, 2, 3)):
        obs.append((ob_angular_exact, dict(name=f"C12|_calculate_angular_distance|exact|N={n}", n=n), 1800))
    for n in (1, 2):
        obs.append((ob_angular_exact, dict(name=f"C12|_calculate_angular_distance|two-sided clamp|N={n}", n=n, trig=False), 900))
    obs.append((ob_angular_clamp_fp, dict(name="C12|_calculate_angular_distance|ieee-clamp|N=2"), 1500))
    for (n, d) in ((2, 1), (2, 2), (3, 1), (3, 2)) + (((3, 3), (4, 2)) if th else ()):
        obs.append((ob_euclid, dict(name=f"C12|_calculate_euclidean_distance|n={n},dim={d}", n=n, dim=d), 1200))
    for (n, d) in ((2, 1), (3, 1), (3, 2)):
        obs.append((ob_grid_lookup, dict(name=f"C12|Grid.node_number|n={n},dim={d}", n=n, dim=d), 900))
    for (a, b) in ((1, 2), (2, 2), (2, 3), (3, 2)):
        obs.append((ob_rect_grid, dict(name=f"C12|rect grid|{a}x{b}", nlat=a, nlon=b), 600))
    for wt in ("surface", "irrigation", None):
        obs.append((ob_node_weights, dict(name=f"C12|GeoNetwork node weights|{wt}", n=3, wtype=wt), 600))
    return obs


def replay(w):
    import numpy as np
    from pyunicorn.core._ext import numerics as CN
    f = core.to_float
    k = w["kind"]
    if k == "angular":
        a = [np.array(f(w[x]), dtype="float32") for x in ("cos_lat", "sin_lat", "cos_lon", "sin_lon")]
        n = len(a[0])
        out = np.zeros((n, n), dtype="float32")
        CN._calculate_angular_distance(*a, out, n)
        e = a[1][:, None] * a[1][None, :] + a[0][:, None] * a[0][None, :] * (a[3][:, None] * a[3][None, :] + a[2][:, None] * a[2][None, :])
        ref = np.clip(e.astype("float64"), -1, 1)
        bad = (out != out.T).any() or (out > 1).any() or (out < -1).any() or np.isnan(out).any() or not np.allclose(out, ref, atol=1e-5)
        return bool(bad), f"cosangdist={out.tolist()} formula={ref.tolist()}"
    if k == "angular-clamp":
        # the abstract model has no concrete input: probe the real kernel at the corners of the input box
        vals = [np.float32(v) for v in (-1.0, 1.0, np.nextafter(np.float32(1), np.float32(2)), -np.nextafter(np.float32(1), np.float32(2)))]
        bad = False
        for a, b, c, d in itertools.product(vals, repeat=4):
            arr = [np.array([a, b], dtype="float32"), np.array([c, d], dtype="float32"), np.array([a, d], dtype="float32"), np.array([b, c], dtype="float32")]
            out = np.zeros((2, 2), dtype="float32")
            CN._calculate_angular_distance(*arr, out, 2)
            if (out > 1).any() or (out < -1).any() or (out != out.T).any():
                bad = True
        return bad, "probe of the compiled kernel at extreme float32 inputs"
    if k == "euclid":
        x = np.array(f(w["x"]), dtype="float32")
        d, n = x.shape
        out = np.zeros((n, n), dtype="float32")
        CN._calculate_euclidean_distance(x, out, d, n)
        ref = np.sqrt(((x[:, :, None] - x[:, None, :]) ** 2).sum(axis=0))
        bad = (out != out.T).any() or (np.diag(out) != 0).any() or not np.allclose(out, ref, rtol=1e-5, atol=1e-6)
        return bool(bad), f"distance={out.tolist()} closed form={ref.tolist()}"
    if k == "lookup":
        from pyunicorn.core import Grid
        c = np.array(f(w["coords"]), dtype=float)
        q = np.array(f(w["q"]), dtype=float)
        g = Grid(np.arange(2), c, 3)
        r = g.node_number(q)
        sq = ((c.T - q) ** 2).sum(axis=1)
        return bool(sq[r] > sq.min() * (1 + 1e-6) + 1e-9), f"node_number({q.tolist()})={r}, squared distances {sq.tolist()}"
    if k == "rect":
        from pyunicorn.core import GeoGrid
        la, lo = np.array(f(w["lat"]), dtype=float), np.array(f(w["lon"]), dtype=float)
        ls, os_ = GeoGrid.coord_sequence_from_rect_grid(la, lo)
        ref = [(a, b) for a in la for b in lo]
        got = list(zip(ls.tolist(), os_.tolist()))
        return got != ref, f"sequence {got} expected {ref}"
    if k == "weights":
        from pyunicorn.core import GeoGrid, GeoNetwork
        lat, lon = np.array(f(w["lat"]), dtype=float), np.array(f(w["lon"]), dtype=float)
        n = len(lat)
        A = np.array([[1 if abs(i - j) == 1 else 0 for j in range(n)] for i in range(n)])
        net = GeoNetwork(GeoGrid(np.arange(2), lat, lon, 3), adjacency=A, node_weight_type=w["type"], silence_level=3)
        c = np.cos(np.radians(lat.astype("float32")))
        ref = c if w["type"] == "surface" else (c ** 2 if w["type"] == "irrigation" else np.ones(n))
        return (not np.allclose(net.node_weights, ref, rtol=1e-5)), f"node_weights {net.node_weights} expected {ref}"
    return False, "unknown witness kind"
