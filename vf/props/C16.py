"""C16 — event synchronisation / coincidence follow their counting rules (Engine P, forking on coincidence patterns).

Oracles are the relations the statement itself lists (range, exchange of the two series, time shift, time rescaling with an
unbounded window, matrix = pairwise values under the symmetrisation, exact thresholding); the closed counting formula is
used only where it is unambiguous (no simultaneous events, no double-counting candidates)."""
import itertools

import numpy as np
import z3

from .. import core, pe, sx
from ..core import HELD, INCONCLUSIVE, VIOLATED, Q, result
from ..pe import SV, Explorer, SymNd
from ..sx import add, and_, eq, ge, gt, ite, le, lt, mul, ne, not_, or_, sub

PROP = "C16"
META = {
    "bounds": "two series with 0..4 events each (quick; 5 thorough) at symbolic increasing time stamps (simultaneous events across "
              "series allowed), symbolic lag and taumax (also infinite); N=3 series for the matrix; thresholding: T<=3 samples",
    "assumptions": ["exact real arithmetic", "np.sqrt of the concrete normalisation constant is taken as the same float on both sides",
                    "np.quantile: NumPy's linear interpolation between order statistics (sorting by forking)"],
    "outside": ["_empirical_percentiles / significance (Monte Carlo)", "int16 event indices beyond 32767 (no timestamps given)"],
}


def mods():
    from pyunicorn.eventseries import event_series
    return [event_series]


def sym_times(T, prefix="t"):
    t = np.empty(T, dtype=object)
    for i in range(T):
        t[i] = SV(z3.Real(f"{prefix}{i}"))
    hyps = [t[i].v < t[i + 1].v for i in range(T - 1)]
    return SymNd(t), hyps


def patterns(T, maxev):
    """binary event vectors of length T with at most maxev events"""
    out = []
    for bits in itertools.product((0, 1), repeat=T):
        if sum(bits) <= maxev:
            out.append(np.array(bits))
    return out


def nums(t):
    return [pe._num(x) for x in (t if isinstance(t, (list, tuple)) else list(t))]


def neq(a, b):
    from .C02 import neq as _n
    if isinstance(a, float) and a != a:
        a = SV(sx.NF(True, 0))
    if isinstance(b, float) and b != b:
        b = SV(sx.NF(True, 0))
    return _n(a, b)


def run_paths(name, hyps, harness, funcs, bound, sig, witfn, max_paths=4000):
    from .C07 import run_paths as rp
    return rp(name, hyps, harness, funcs, bound, sig, witfn, max_paths)


def ob_es_relations(name, T, pairs, inf_tau):
    """event_synchronization: exchange, shift (and rescaling when taumax = inf) for the given event patterns"""
    from pyunicorn.eventseries import EventSeries
    funcs = ["src/pyunicorn/eventseries/event_series.py EventSeries.event_synchronization"]
    t, hyps = sym_times(T)
    lag = SV(z3.Real("lag"))
    shift = SV(z3.Real("shift"))
    scale = SV(sx.Fraction(3, 2))          # a concrete positive factor keeps the rescaled run linear
    if inf_tau:
        tau = np.inf
    else:
        tau = SV(z3.Real("taumax"))
        hyps += [tau.v >= 0]

    def harness(ex):
        out = []
        with pe.patched(mods()):
            for (px, py) in pairs:
                a = EventSeries.event_synchronization(px, py, ts1=t, ts2=t, taumax=tau, lag=lag)
                # exchanging the two series exchanges the outputs (the lag changes sign with the roles)
                b = EventSeries.event_synchronization(py, px, ts1=t, ts2=t, taumax=tau, lag=-lag)
                out.append((f"{px}{py} exchange", or_(neq(a[0], b[1]), neq(a[1], b[0]))))
                ts = t + shift
                c = EventSeries.event_synchronization(px, py, ts1=ts, ts2=ts, taumax=tau, lag=lag)
                out.append((f"{px}{py} shift", or_(neq(a[0], c[0]), neq(a[1], c[1]))))
                if inf_tau:
                    tr = t * scale
                    d = EventSeries.event_synchronization(px, py, ts1=tr, ts2=tr, taumax=tau, lag=lag * scale)
                    out.append((f"{px}{py} rescale", or_(neq(a[0], d[0]), neq(a[1], d[1]))))
                for k in (0, 1):
                    v = pe._num(a[k]) if not (isinstance(a[k], float) and a[k] != a[k]) else None
                    if v is not None and not isinstance(v, sx.NF):
                        out.append((f"{px}{py} nonnegative", lt(v, 0)))
        return [(l, b_) for l, b_ in out if b_ is not False]

    def wit(m, lab):
        return {"kind": "es", "t": [sx.model_value(m, x.v) for x in t], "lag": sx.model_value(m, lag.v), "shift": sx.model_value(m, shift.v),
                "scale": 1.5, "taumax": "inf" if inf_tau else sx.model_value(m, tau.v),
                "label": lab, "pairs": [[p.tolist(), q.tolist()] for p, q in pairs]}
    return run_paths(name, hyps, harness, funcs,
                     f"T={T} increasing symbolic time stamps, {len(pairs)} event-pattern pairs, symbolic lag, taumax {'inf' if inf_tau else 'symbolic >= 0'}",
                     "C16|event_synchronization", wit)


def ob_eca_relations(name, T, pairs):
    from pyunicorn.eventseries import EventSeries
    funcs = ["src/pyunicorn/eventseries/event_series.py EventSeries.event_coincidence_analysis"]
    t, hyps = sym_times(T)
    tau = SV(z3.Real("taumax"))
    lag = SV(z3.Real("lag"))
    shift = SV(z3.Real("shift"))
    hyps += [tau.v > 0, lag.v >= 0]

    def harness(ex):
        out = []
        with pe.patched(mods()):
            for (px, py) in pairs:
                try:
                    a = EventSeries.event_coincidence_analysis(px, py, tau, ts1=t, ts2=t, lag=lag)
                    b = EventSeries.event_coincidence_analysis(py, px, tau, ts1=t, ts2=t, lag=lag)
                    ts = t + shift
                    c = EventSeries.event_coincidence_analysis(px, py, tau, ts1=ts, ts2=ts, lag=lag)
                except ZeroDivisionError:
                    continue            # every event lies in the excluded boundary region (rate undefined)
                out.append((f"{px}{py} exchange", or_(neq(a[0], b[2]), neq(a[1], b[3]), neq(a[2], b[0]), neq(a[3], b[1]))))
                out.append((f"{px}{py} shift", or_(*[neq(a[k], c[k]) for k in range(4)])))
                for k in range(4):
                    v = pe._num(a[k])
                    if isinstance(v, sx.NF):
                        out.append((f"{px}{py} range", and_(not_(v.nan), or_(lt(v.val, 0), gt(v.val, 1)))))
                    else:
                        out.append((f"{px}{py} range", or_(lt(v, 0), gt(v, 1))))
        return [(l, b_) for l, b_ in out if b_ is not False]

    def wit(m, lab):
        return {"kind": "eca", "t": [sx.model_value(m, x.v) for x in t], "lag": sx.model_value(m, lag.v), "shift": sx.model_value(m, shift.v),
                "taumax": sx.model_value(m, tau.v), "label": lab, "pairs": [[p.tolist(), q.tolist()] for p, q in pairs]}
    return run_paths(name, hyps, harness, funcs, f"T={T} symbolic time stamps, {len(pairs)} pattern pairs, symbolic taumax>0, lag>=0",
                     "C16|event_coincidence_analysis", wit)


def ob_eca_definition(name, T, pairs):
    """static event_coincidence_analysis equals the counting definition [Odenweller2020] for symbolic time stamps, taumax >= 0 and
    lag >= 0 -- including instantaneous coincidence (taumax = lag = 0), where no boundary events are excluded"""
    from pyunicorn.eventseries import EventSeries
    funcs = ["src/pyunicorn/eventseries/event_series.py EventSeries.event_coincidence_analysis"]
    t, hyps = sym_times(T)
    tau = SV(z3.Real("taumax"))
    lag = SV(z3.Real("lag"))
    hyps += [tau.v >= 0, lag.v >= 0]
    tv = [x.v for x in t]

    def spec(px, py):
        ex_ = [tv[k] for k in range(T) if px[k]]
        ey_ = [tv[k] for k in range(T) if py[k]]
        inst = z3.And(tau.v == 0, lag.v == 0)
        win = tau.v + lag.v

        def rates(ea, eb):
            # events of a preceded by an event of b within [lag, lag + taumax]; events of b followed by one of a
            hit_a = [z3.Or(*[z3.And(a - b - lag.v >= 0, a - b - lag.v <= tau.v) for b in eb]) for a in ea]
            hit_b = [z3.Or(*[z3.And(a - b - lag.v >= 0, a - b - lag.v <= tau.v) for a in ea]) for b in eb]
            in_a = [z3.Or(inst, a > ea[0] + win) for a in ea]            # not among the first events that cannot have a precursor
            in_b = [z3.Or(inst, b < eb[-1] - win) for b in eb]           # not among the last events that cannot trigger
            prec = z3.Sum([z3.If(z3.And(i_, h), 1, 0) for i_, h in zip(in_a, hit_a)])
            nprec = z3.Sum([z3.If(i_, 1, 0) for i_ in in_a])
            trig = z3.Sum([z3.If(z3.And(i_, h), 1, 0) for i_, h in zip(in_b, hit_b)])
            ntrig = z3.Sum([z3.If(i_, 1, 0) for i_ in in_b])
            return prec, nprec, trig, ntrig
        p12, n12_, t12, m12 = rates(ex_, ey_)
        p21, n21_, t21, m21 = rates(ey_, ex_)
        return [(p12, n12_), (t12, m12), (p21, n21_), (t21, m21)]

    def harness(ex):
        out = []
        with pe.patched(mods()):
            for (px, py) in pairs:
                try:
                    a = EventSeries.event_coincidence_analysis(px, py, tau, ts1=t, ts2=t, lag=lag)
                except ZeroDivisionError:
                    continue            # every event lies in the excluded boundary region (rate undefined)
                names = ("precursor XY", "trigger XY", "precursor YX", "trigger YX")
                for k, (cnt, den) in enumerate(spec(px, py)):
                    v = pe._num(a[k])
                    if isinstance(v, sx.NF):
                        out.append((f"{names[k]} rate is not the counting definition", and_(not_(v.nan), den > 0, ne(mul(v.val, z3.ToReal(den)), z3.ToReal(cnt)))))
                    else:
                        out.append((f"{names[k]} rate is not the counting definition", and_(den > 0, ne(mul(v, z3.ToReal(den)), z3.ToReal(cnt)))))
        return [(l, b_) for l, b_ in out if b_ is not False]

    def wit(m, lab):
        return {"kind": "eca-def", "t": [sx.model_value(m, x.v) for x in t], "lag": sx.model_value(m, lag.v), "taumax": sx.model_value(m, tau.v),
                "label": lab, "pairs": [[p.tolist(), q.tolist()] for p, q in pairs]}
    return run_paths(name, hyps, harness, funcs, f"T={T} symbolic time stamps, {len(pairs)} pattern pairs, symbolic taumax>=0, lag>=0",
                     "C16|event_coincidence_analysis|definition", wit, max_paths=4000)


def ob_eca_rate(name, T, pairs, window_type):
    """_eca_coincidence_rate with symbolic lag: exchanging the two series exchanges the two rates (the lag keeps its role), the
    rates are time-shift invariant and lie in [0,1]"""
    from pyunicorn.eventseries import EventSeries
    funcs = ["src/pyunicorn/eventseries/event_series.py EventSeries._eca_coincidence_rate"]
    t, hyps = sym_times(T)
    tau = SV(z3.Real("taumax"))
    lag = SV(z3.Real("lag"))
    shift = SV(z3.Real("shift"))
    hyps += [tau.v > 0, lag.v >= 0]
    dummy = np.array([[0, 1], [1, 0]])

    def harness(ex):
        out = []
        with pe.patched(mods()):
            es = object.__new__(EventSeries)
            EventSeries.__init__(es, dummy, taumax=1.0, lag=0.0)
            es._EventSeries__taumax = tau
            es._EventSeries__lag = lag
            for (px, py) in pairs:
                try:
                    a = es._eca_coincidence_rate(px, py, window_type=window_type, ts1=t, ts2=t)
                    b = es._eca_coincidence_rate(py, px, window_type=window_type, ts1=t, ts2=t)
                    c = es._eca_coincidence_rate(px, py, window_type=window_type, ts1=t + shift, ts2=t + shift)
                except (ZeroDivisionError, IndexError):
                    continue
                out.append((f"{px}{py} exchange", or_(neq(a[0], b[1]), neq(a[1], b[0]))))
                out.append((f"{px}{py} shift", or_(neq(a[0], c[0]), neq(a[1], c[1]))))
                for k in range(2):
                    v = pe._num(a[k])
                    if isinstance(v, sx.NF):
                        out.append((f"{px}{py} range", and_(not_(v.nan), or_(lt(v.val, 0), gt(v.val, 1)))))
                    else:
                        out.append((f"{px}{py} range", or_(lt(v, 0), gt(v, 1))))
        return [(l, b_) for l, b_ in out if b_ is not False]

    def wit(m, lab):
        return {"kind": "eca_rate", "window_type": window_type, "t": [sx.model_value(m, x.v) for x in t], "lag": sx.model_value(m, lag.v),
                "shift": sx.model_value(m, shift.v), "taumax": sx.model_value(m, tau.v), "label": lab,
                "pairs": [[p.tolist(), q.tolist()] for p, q in pairs]}
    return run_paths(name, hyps, harness, funcs, f"T={T}, {len(pairs)} pattern pairs, window {window_type}, symbolic taumax>0, lag>=0",
                     f"C16|_eca_coincidence_rate|{window_type}", wit)


def ob_matrix(name, T, cols, method):
    """event_series_analysis: the N x N matrix contains exactly the pairwise values under each symmetrisation"""
    from pyunicorn.eventseries import EventSeries
    funcs = ["src/pyunicorn/eventseries/event_series.py EventSeries.event_series_analysis/_ndim_event_synchronization/"
             "_ndim_event_coincidence_analysis/_symmetrization_*"]
    t, hyps = sym_times(T)
    tau = SV(z3.Real("taumax"))
    hyps += [tau.v > 0]
    data = np.array(cols).T
    N = data.shape[1]

    def harness(ex):
        out = []
        with pe.patched(mods()):
            es = object.__new__(EventSeries)
            EventSeries.__init__(es, data, timestamps=t, taumax=1.0, lag=0.0)
            es._EventSeries__taumax = tau
            es._EventSeries__lag = 0
            D = np.zeros((N, N), dtype=object)
            for i in range(N):
                for j in range(i + 1, N):
                    if method == "ES":
                        D[i, j], D[j, i] = EventSeries.event_synchronization(data[:, i], data[:, j], ts1=t, ts2=t, taumax=tau, lag=0)
                    else:
                        D[i, j], D[j, i] = es._eca_coincidence_rate(data[:, i], data[:, j], window_type="symmetric", ts1=t, ts2=t)
            syms = ["directed", "symmetric", "antisym", "mean", "max", "min"] if method == "ES" else ["directed", "mean", "max", "min"]
            for s_ in syms:
                M = np.asarray(es.event_series_analysis(method=method, symmetrization=s_), dtype=object)
                for i in range(N):
                    for j in range(N):
                        a, b = pe._num(D[i, j]), pe._num(D[j, i])
                        if isinstance(a, float) or isinstance(b, float):
                            continue
                        if s_ == "directed":
                            exp = a
                        elif s_ == "symmetric":
                            exp = add(a, b)
                        elif s_ == "antisym":
                            exp = sub(a, b)
                        elif s_ == "mean":
                            exp = sx.div(add(a, b), 2)
                        elif s_ == "max":
                            exp = ite(gt(a, b), a, b)
                        else:
                            exp = ite(lt(a, b), a, b)
                        out.append((f"{s_}[{i},{j}]", neq(M[i, j], exp)))
        return [(l, b_) for l, b_ in out if b_ is not False]

    def wit(m, lab):
        return {"kind": "matrix", "method": method, "data": data.tolist(), "t": [sx.model_value(m, x.v) for x in t] if m else list(range(T)),
                "taumax": sx.model_value(m, tau.v) if m else 1.0, "label": lab}
    return run_paths(name, hyps, harness, funcs, f"{N} series, T={T}, method {method}, all symmetrisations", f"C16|event_series_analysis|{method}", wit)


def ob_threshold(name, T, method, ttype):
    """make_event_matrix marks exactly the samples beyond the value / quantile"""
    from pyunicorn.eventseries import EventSeries
    funcs = ["src/pyunicorn/eventseries/event_series.py EventSeries.make_event_matrix"]
    x = np.empty((T, 1), dtype=object)
    for i in range(T):
        x[i, 0] = SV(z3.Real(f"x{i}"))
    hyps = []
    q = sx.Fraction(1, 2) if method == "quantile" else None
    thr = SV(z3.Real("thr"))

    def harness(ex):
        out = []
        with pe.patched(mods()):
            import warnings
            with warnings.catch_warnings():
                warnings.simplefilter("ignore")
                if method == "value":
                    try:
                        E = EventSeries.make_event_matrix(SymNd(x.copy()), threshold_method="value", threshold_values=thr, threshold_types=ttype)
                    except IOError:
                        return []
                    level = thr.v
                else:
                    E = EventSeries.make_event_matrix(SymNd(x.copy()), threshold_method="quantile", threshold_values=0.5, threshold_types=ttype)
                    # median by definition: middle order statistic / mean of the two middle ones
                    vals = [x[i, 0].v for i in range(T)]
                    level = median_term(vals)
            E = np.asarray(E, dtype=object)
            for i in range(T):
                beyond = gt(x[i, 0].v, level) if ttype == "above" else lt(x[i, 0].v, level)
                out.append((f"sample{i}", ne(eq(pe._num(E[i, 0]), 1), beyond)))
        return [(l, b_) for l, b_ in out if b_ is not False]

    def wit(m, lab):
        return {"kind": "threshold", "x": [sx.model_value(m, x[i, 0].v) for i in range(T)], "method": method, "type": ttype,
                "thr": sx.model_value(m, thr.v), "label": lab}
    return run_paths(name, hyps, harness, funcs, f"T={T} symbolic samples, method {method}, type {ttype}", f"C16|make_event_matrix|{method}", wit)


class ValueBox(float):
    """a threshold value that passes the library's isinstance(.., (float, int)) validation while carrying a symbolic value"""
    def __new__(cls, sv):
        o = float.__new__(cls, 0.0)
        o.sv = sv
        return o


def median_term(vals):
    """median as a term: for each value count how many are <= / >= (order statistics by counting, no sorting)"""
    n = len(vals)

    def kth(k):
        # k-th smallest (0-based): value v with #(< v) <= k and #(<= v) > k
        out = vals[0]
        for v in vals:
            less = sx.total(ite(lt(u, v), 1, 0) for u in vals)
            leq = sx.total(ite(le(u, v), 1, 0) for u in vals)
            out = ite(and_(le(less, k), gt(leq, k)), v, out)
        return out
    if n % 2 == 1:
        return kth(n // 2)
    return sx.div(add(kth(n // 2 - 1), kth(n // 2)), 2)


def prepare(tier):
    return {"validated": 0, "validation": []}


def obligations(tier):
    th = tier == "thorough"
    obs = []
    T = 5 if not th else 6
    pats = patterns(T, 4 if not th else 5)
    import random
    rnd = random.Random(core.SEED)
    allpairs = [(a, b) for a in pats for b in pats if a.sum() >= 3 and b.sum() >= 3]
    rnd.shuffle(allpairs)
    small = [(a, b) for a in pats for b in pats if a.sum() < 3 or b.sum() < 3][:12]
    chosen = allpairs[:24 if not th else 80]
    for ci in range(0, len(chosen), 4):
        obs.append((ob_es_relations, dict(name=f"C16|event_synchronization|relations|#{ci // 4}", T=T, pairs=chosen[ci:ci + 4], inf_tau=False), 2400))
    for ci in range(0, min(len(chosen), 12), 4):
        obs.append((ob_es_relations, dict(name=f"C16|event_synchronization|relations taumax=inf|#{ci // 4}", T=T, pairs=chosen[ci:ci + 4], inf_tau=True), 2400))
    obs.append((ob_es_relations, dict(name="C16|event_synchronization|few events", T=T, pairs=small, inf_tau=False), 1200))
    ecap = [(a, b) for a in patterns(4, 3) for b in patterns(4, 3) if a.sum() >= 1 and b.sum() >= 1]
    rnd.shuffle(ecap)
    ecap = ecap[:16 if not th else 48]
    for ci in range(0, len(ecap), 4):
        obs.append((ob_eca_relations, dict(name=f"C16|event_coincidence_analysis|relations|#{ci // 4}", T=4, pairs=ecap[ci:ci + 4]), 2400))
    for ci in range(0, min(len(ecap), 8 if not th else 24), 2):
        obs.append((ob_eca_definition, dict(name=f"C16|event_coincidence_analysis|definition|#{ci // 2}", T=4, pairs=ecap[ci:ci + 2]), 2400))
    big = [(a, b) for a in patterns(5, 4) for b in patterns(5, 4) if a.sum() >= 3 and b.sum() >= 3]
    rnd.shuffle(big)
    big = big[:6 if not th else 18]
    for wt in ("symmetric", "advanced", "retarded"):
        for ci in range(0, len(big), 2):
            obs.append((ob_eca_rate, dict(name=f"C16|_eca_coincidence_rate|{wt}|#{ci // 2}", T=5, pairs=big[ci:ci + 2], window_type=wt), 2400))
    cols = [[1, 0, 1, 1, 1], [0, 1, 1, 0, 1], [1, 1, 0, 1, 1]]
    obs.append((ob_matrix, dict(name="C16|event_series_analysis|ES|N=3", T=5, cols=cols, method="ES"), 2400))
    obs.append((ob_matrix, dict(name="C16|event_series_analysis|ECA|N=3", T=5, cols=cols, method="ECA"), 2400))
    for method in ("value", "quantile"):
        for ttype in ("above", "below"):
            for T_ in ((2, 3) if not th else (2, 3, 4)):
                obs.append((ob_threshold, dict(name=f"C16|make_event_matrix|{method}|{ttype}|T={T_}", T=T_, method=method, ttype=ttype), 1200))
    return obs


def replay(w):
    from pyunicorn.eventseries import EventSeries
    f = core.to_float
    k = w["kind"]
    lab = w.get("label", "")
    if k == "eca-def":
        t = np.array(f(w["t"]), dtype=float)
        lag, tau = float(f(w["lag"])), float(f(w["taumax"]))
        msgs = []
        for px, py in w["pairs"]:
            px, py = np.array(px), np.array(py)
            ex_, ey_ = t[px == 1], t[py == 1]
            inst = (tau == 0 and lag == 0)

            def rates(ea, eb):
                hit_a = [any(0 <= a - b - lag <= tau for b in eb) for a in ea]
                hit_b = [any(0 <= a - b - lag <= tau for a in ea) for b in eb]
                in_a = [inst or a > ea[0] + lag + tau for a in ea]
                in_b = [inst or b < eb[-1] - lag - tau for b in eb]
                pa = sum(1 for i_, h in zip(in_a, hit_a) if i_ and h)
                pb = sum(1 for i_, h in zip(in_b, hit_b) if i_ and h)
                return (pa / sum(in_a) if sum(in_a) else None), (pb / sum(in_b) if sum(in_b) else None)
            p12, t12 = rates(ex_, ey_)
            p21, t21 = rates(ey_, ex_)
            ref = [p12, t12, p21, t21]
            try:
                with np.errstate(all="ignore"):
                    got = EventSeries.event_coincidence_analysis(px, py, tau, ts1=t, ts2=t, lag=lag)
            except ZeroDivisionError:
                continue
            for k_, (g, r) in enumerate(zip(got, ref)):
                if r is not None and np.isfinite(g) and not np.isclose(float(g), r, rtol=1e-6):
                    msgs.append(f"ECA({px.tolist()},{py.tolist()}) at t={t.tolist()}, taumax={tau}, lag={lag}: output {k_} = {float(g)} but the counting definition gives {r}")
        return bool(msgs), "; ".join(msgs[:3])
    if k in ("es", "eca"):
        t = np.array(f(w["t"]), dtype=float)
        lag, shift = float(f(w["lag"])), float(f(w["shift"]))
        tau = np.inf if w["taumax"] == "inf" else float(f(w["taumax"]))
        bad = False
        msgs = []
        for px, py in w["pairs"]:
            px, py = np.array(px), np.array(py)
            tag = f"{px}{py}"
            if not lab.startswith(tag):
                continue
            if k == "es":
                a = EventSeries.event_synchronization(px, py, ts1=t, ts2=t, taumax=tau, lag=lag)
                b = EventSeries.event_synchronization(py, px, ts1=t, ts2=t, taumax=tau, lag=-lag)
                c = EventSeries.event_synchronization(px, py, ts1=t + shift, ts2=t + shift, taumax=tau, lag=lag)
                cl = lambda u, v: np.allclose(u, v, rtol=1e-9, atol=1e-12, equal_nan=True)
                if "exchange" in lab and not (cl(a[0], b[1]) and cl(a[1], b[0])):
                    bad = True
                    msgs.append(f"ES({px},{py})={a} but ES({py},{px})={b}")
                if "shift" in lab and not cl(a, c):
                    bad = True
                    msgs.append(f"ES={a}, after a time shift of {shift}: {c}")
                if "rescale" in lab:
                    s = float(f(w["scale"]))
                    d = EventSeries.event_synchronization(px, py, ts1=t * s, ts2=t * s, taumax=tau, lag=lag * s)
                    if not cl(a, d):
                        bad = True
                        msgs.append(f"ES={a}, after rescaling time by {s}: {d}")
                if "nonnegative" in lab and (np.nan_to_num(a[0]) < 0 or np.nan_to_num(a[1]) < 0):
                    bad = True
                    msgs.append(f"negative strength {a}")
            else:
                a = EventSeries.event_coincidence_analysis(px, py, tau, ts1=t, ts2=t, lag=lag)
                b = EventSeries.event_coincidence_analysis(py, px, tau, ts1=t, ts2=t, lag=lag)
                c = EventSeries.event_coincidence_analysis(px, py, tau, ts1=t + shift, ts2=t + shift, lag=lag)
                cl = lambda u, v: np.allclose(u, v, rtol=1e-6, atol=1e-9, equal_nan=True)
                if "exchange" in lab and not (cl(a[0], b[2]) and cl(a[1], b[3]) and cl(a[2], b[0]) and cl(a[3], b[1])):
                    bad = True
                    msgs.append(f"ECA({px},{py})={a} but ECA({py},{px})={b}")
                if "shift" in lab and not cl(a, c):
                    bad = True
                    msgs.append(f"ECA={a}, shifted by {shift}: {c}")
                if "range" in lab and any((v < 0 or v > 1) for v in a if v == v):
                    bad = True
                    msgs.append(f"rate outside [0,1]: {a}")
        return bad, f"t={t.tolist()} lag={lag} taumax={tau}: " + "; ".join(msgs[:2])
    if k == "eca_rate":
        t = np.array(f(w["t"]), dtype=float)
        lag, shift, tau = float(f(w["lag"])), float(f(w["shift"])), float(f(w["taumax"]))
        es = EventSeries(np.array([[0, 1], [1, 0]]), taumax=tau, lag=lag)
        bad, msgs = False, []
        for px, py in w["pairs"]:
            px, py = np.array(px), np.array(py)
            if not lab.startswith(f"{px}{py}"):
                continue
            a = es._eca_coincidence_rate(px, py, window_type=w["window_type"], ts1=t, ts2=t)
            b = es._eca_coincidence_rate(py, px, window_type=w["window_type"], ts1=t, ts2=t)
            c = es._eca_coincidence_rate(px, py, window_type=w["window_type"], ts1=t + shift, ts2=t + shift)
            cl = lambda u, v: np.allclose(u, v, rtol=1e-6, atol=1e-9, equal_nan=True)
            if "exchange" in lab and not (cl(a[0], b[1]) and cl(a[1], b[0])):
                bad = True
                msgs.append(f"rates({px},{py})={a} but rates({py},{px})={b}")
            if "shift" in lab and not cl(a, c):
                bad = True
                msgs.append(f"rates {a}, shifted by {shift}: {c}")
            if "range" in lab and any((v < 0 or v > 1) for v in a if v == v):
                bad = True
                msgs.append(f"rate outside [0,1]: {a}")
        return bad, f"window {w['window_type']} t={t.tolist()} lag={lag} taumax={tau}: " + "; ".join(msgs[:2])
    if k == "matrix":
        data = np.array(w["data"])
        t = np.array(f(w["t"]), dtype=float)
        tau = float(f(w["taumax"]))
        es = EventSeries(data, timestamps=t, taumax=tau, lag=0.0)
        N = data.shape[1]
        D = np.zeros((N, N))
        for i in range(N):
            for j in range(i + 1, N):
                if w["method"] == "ES":
                    D[i, j], D[j, i] = EventSeries.event_synchronization(data[:, i], data[:, j], ts1=t, ts2=t, taumax=tau, lag=0.0)
                else:
                    D[i, j], D[j, i] = es._eca_coincidence_rate(data[:, i], data[:, j], window_type="symmetric", ts1=t, ts2=t)
        s_ = lab.split("[")[0]
        M = es.event_series_analysis(method=w["method"], symmetrization=s_)
        ref = {"directed": D, "symmetric": D + D.T, "antisym": D - D.T, "mean": (D + D.T) / 2, "max": np.maximum(D, D.T),
               "min": np.minimum(D, D.T)}[s_]
        return (not np.allclose(M, ref, equal_nan=True)), f"{w['method']} {s_}: {M.tolist()} pairwise {ref.tolist()}"
    if k == "threshold":
        import warnings
        x = np.array(f(w["x"]), dtype=float).reshape(-1, 1)
        with warnings.catch_warnings():
            warnings.simplefilter("ignore")
            if w["method"] == "value":
                thr = float(f(w["thr"]))
                try:
                    E = EventSeries.make_event_matrix(x, threshold_method="value", threshold_values=thr, threshold_types=w["type"])
                except IOError:
                    return False, "threshold outside the variable range (rejected)"
                level = thr
            else:
                E = EventSeries.make_event_matrix(x, threshold_method="quantile", threshold_values=0.5, threshold_types=w["type"])
                level = np.median(x)
        ref = (x > level) if w["type"] == "above" else (x < level)
        return bool((E.astype(bool) != ref).any()), f"x={x.ravel().tolist()} level={level}: events {E.ravel().tolist()} expected {ref.ravel().astype(int).tolist()}"
    return False, "unknown witness kind"
