"""C08 — RQA line statistics are exact run-length counts of the matrix.

Engine K over timeseries/_ext/numerics.pyx::_line_dist and its ten entry points, plus the scalar
formulas of RecurrencePlot (Engine P-lite, see rqa_formulas).
"""
import itertools
import os
import random

import z3

from .. import core, kern, sx
from ..core import HELD, INCONCLUSIVE, VIOLATED, Q, result
from ..kern import Arr, Run
from ..sx import and_, eq, ite, not_, or_

PROP = "C08"
META = {
    "bounds": "matrix kernels: all 0/1 matrices n<=4 (arbitrary) and symmetric unit-diagonal n<=5 quick / 6 thorough, "
              "missing-value masks all 2^n; sequential kernels: n<=4 (5 thorough), dim<=2, reals; IEEE lemma: all doubles",
    "assumptions": [
        "exact real arithmetic for the embedding/threshold comparison (float32 rounding decided separately by the IEEE lemma)",
        "integer histogram cells do not overflow int32 (n <= 46340)",
        "Cython semantics as implemented by vf.kern (validated against the compiled extension on every run)",
    ],
    "outside": ["resample_*_dist / rejection sampling (random)", "matrices larger than the bound",
                "entropy values (log is uninterpreted: only the structure of the formula is compared)"],
}

MATRIX_KERNELS = ["_vertline_dist", "_diagline_dist", "_white_vertline_dist"]
MV_KERNELS = ["_vertline_dist_missingvalues", "_diagline_dist_missingvalues"]
SEQ_KERNELS = ["_vertline_dist_sequential", "_diagline_dist_sequential"]
SEQ_MV_KERNELS = ["_vertline_dist_sequential_missingvalues", "_diagline_dist_sequential_missingvalues"]

_VALID = {}


# ------------------------------------------------------------------------------ independent oracle
def ref_linedist(R, kind, black=1, mask=None):
    """direct run-length count (python ints); R nested list n x n.  kind: 'vert' | 'diag'"""
    n = len(R)
    hist = [0] * n
    lines = []
    if kind == "vert":
        for i in range(n):
            lines.append([(i, j) for j in range(n)])
    else:
        for d in range(1, n):
            lines.append([(j + d, j) for j in range(n - d)])
    for cells in lines:
        # classify cells
        cl = []
        for (I, j) in cells:
            if mask is not None and (mask[I] or mask[j]):
                cl.append("m")
            elif R[I][j] == black:
                cl.append("b")
            else:
                cl.append("w")
        k = 0
        while k < len(cl):
            if cl[k] != "b":
                k += 1
                continue
            e = k
            while e + 1 < len(cl) and cl[e + 1] == "b":
                e += 1
            touching = (k > 0 and cl[k - 1] == "m") or (e + 1 < len(cl) and cl[e + 1] == "m")
            if not touching:
                hist[e - k] += 1
            k = e + 1
    return hist


def spec_linedist(cellcls, n):
    """symbolic run-length spec.  cellcls: list of lines; each line = list of (isblack, ismissing) Booleans."""
    hist = [0] * n
    for cells in cellcls:
        L = len(cells)
        blk = [and_(b, not_(m)) for b, m in cells]
        mis = [m for b, m in cells]
        for a in range(L):
            for e in range(a, L):
                cond = and_(*blk[a:e + 1])
                if a > 0:
                    cond = and_(cond, not_(blk[a - 1]), not_(mis[a - 1]))
                if e + 1 < L:
                    cond = and_(cond, not_(blk[e + 1]), not_(mis[e + 1]))
                hist[e - a] = sx.add(hist[e - a], ite(cond, 1, 0))
    return hist


def lines_of(kind, n):
    if kind == "vert":
        return [[(i, j) for j in range(n)] for i in range(n)]
    return [[(j + d, j) for j in range(n - d)] for d in range(1, n)]


def sym_R(n, mode):
    """mode 'sym': symmetric, unit diagonal; 'any': arbitrary 0/1"""
    bits = {}
    data = []
    for i in range(n):
        for j in range(n):
            if mode == "sym":
                if i == j:
                    data.append(1)
                    continue
                key = (min(i, j), max(i, j))
            else:
                key = (i, j)
            if key not in bits:
                bits[key] = z3.Bool(f"r_{key[0]}_{key[1]}")
            data.append(z3.If(bits[key], z3.IntVal(1), z3.IntVal(0)))
    return Arr((n, n), data, "int8"), bits


def cell_black(R, I, j, black):
    v = R.get(I, j)
    return eq(v, black)


# ------------------------------------------------------------------------------ obligations
def ob_matrix_kernel(name, fn, n, mode, with_mask):
    if fn in _VALID and not _VALID[fn]:
        return result(name, INCONCLUSIVE, reason="translator validation failed", functions=[])
    mod = kern.module("timeseries")
    R, bits = sym_R(n, mode)
    hist = Arr.full((n,), 0, "int32")
    run = Run(mod, loop_bound=n + 1)
    args = [n, hist, R]
    mask = None
    if with_mask:
        mbits = [z3.Bool(f"m_{i}") for i in range(n)]
        mask = Arr((n,), list(mbits), "bool")
        args.append(mask)
    run.call(fn, args)
    kind = "diag" if "diag" in fn else "vert"
    black = 0 if "white" in fn else 1
    cls = [[(cell_black(R, I, j, black), or_(mask.data[I], mask.data[j]) if mask else False)
            for (I, j) in line] for line in lines_of(kind, n)]
    spec = spec_linedist(cls, n)
    diff = or_(*[sx.ne(h, s) for h, s in zip(hist.data, spec)])
    hyps = list(run.assumptions)
    funcs = [mod.func_info("_line_dist"), mod.func_info(fn)]
    bound = f"n={n} {mode} R" + (" + mask bits" if with_mask else "")
    # events: no exception may be possible for the caller contract
    exc = run.exc()
    unw = or_(*[e.cond for e in run.events if e.kind == "unwind"])
    v, m = Q.check(hyps + [or_(diff, exc, unw)], 120, tag=name)
    tv, _ = Q.check(hyps, 20, tag=name + "|twin", want_model=False)
    if v == "unsat":
        return result(name, HELD, functions=funcs, bound=bound, twin=tv)
    if v == "sat":
        Rm = [[int(sx.model_value(m, R.get(i, j))) for j in range(n)] for i in range(n)]
        Mm = [bool(sx.model_value(m, x)) for x in mask.data] if mask else None
        return result(name, VIOLATED, functions=funcs, bound=bound, twin=tv,
                      signature=f"C08|{fn}|runlength-spec",
                      witness={"kind": "matrix", "fn": fn, "R": Rm, "mask": Mm,
                               "predicted_hist": [int(sx.model_value(m, h)) if h is not kern.UNDEF else None for h in hist.data]})
    return result(name, INCONCLUSIVE, reason="solver unknown", functions=funcs, bound=bound)


def ob_accounting(name, n):
    """black + white vertical lines cover the n^2 points once; 2*diag lines + n cover the recurrence points"""
    mod = kern.module("timeseries")
    R, bits = sym_R(n, "sym")
    hs = {}
    hyps = []
    bad = False
    for fn in MATRIX_KERNELS:
        h = Arr.full((n,), 0, "int32")
        run = Run(mod, loop_bound=n + 1)
        run.call(fn, [n, h, R])
        hs[fn] = h.data
        hyps += run.assumptions
        bad = or_(bad, not_(run.ok()))
    tot = lambda h: sx.total(sx.mul(k + 1, x) for k, x in enumerate(h))
    rec_points = sx.total(R.data)
    goal = and_(eq(sx.add(tot(hs["_vertline_dist"]), tot(hs["_white_vertline_dist"])), n * n),
                eq(tot(hs["_vertline_dist"]), rec_points),
                eq(sx.add(sx.mul(2, tot(hs["_diagline_dist"])), n), rec_points))
    v, m = Q.check(hyps + [or_(not_(goal), bad)], 120, tag=name)
    funcs = [mod.func_info("_line_dist")] + [mod.func_info(f) for f in MATRIX_KERNELS]
    bound = f"n={n} symmetric unit-diagonal R"
    if v == "unsat":
        return result(name, HELD, functions=funcs, bound=bound, twin="sat")
    if v == "sat":
        Rm = [[int(sx.model_value(m, R.get(i, j))) for j in range(n)] for i in range(n)]
        return result(name, VIOLATED, functions=funcs, bound=bound, signature="C08|line_dist|accounting",
                      witness={"kind": "accounting", "R": Rm})
    return result(name, INCONCLUSIVE, reason="solver unknown", functions=funcs, bound=bound)


def ob_sequential(name, fn, n, dim, with_mask):
    """sequential kernel on (E, eps) == matrix kernel on R = [sup-dist < eps] (exact reals)"""
    mod = kern.module("timeseries")
    E = kern.sym_real_arr((n, dim), "e")
    eps = z3.Real("eps")
    hist = Arr.full((n,), 0, "int32")
    run = Run(mod, loop_bound=n + 1)
    mask = None
    if with_mask:
        mbits = [z3.Bool(f"m_{i}") for i in range(n)]
        mask = Arr((n,), list(mbits), "bool")
        args = [n, hist, mask, E, eps, dim]
    else:
        args = [n, hist, E, eps, dim]
    run.call(fn, args)
    # oracle: thresholded supremum distance, then the run-length spec
    def rec(I, j):
        d = 0
        for l in range(dim):
            t = sx.abs_(sx.sub(E.get(I, l), E.get(j, l)))
            d = sx.ite(sx.gt(t, d), t, d)
        return sx.lt(d, eps)
    kind = "diag" if "diag" in fn else "vert"
    cls = [[(rec(I, j), or_(mask.data[I], mask.data[j]) if mask else False) for (I, j) in line]
           for line in lines_of(kind, n)]
    spec = spec_linedist(cls, n)
    diff = or_(*[sx.ne(h, s) for h, s in zip(hist.data, spec)])
    funcs = [mod.func_info("_line_dist"), mod.func_info(fn), mod.func_info("metric_supremum")]
    bound = f"n={n} dim={dim} real embedding, real eps" + (" + mask bits" if with_mask else "")
    v, m = Q.check(run.assumptions + [or_(diff, not_(run.ok()))], 180, tag=name)
    tv, _ = Q.check(run.assumptions, 20, tag=name + "|twin", want_model=False)
    if v == "unsat":
        return result(name, HELD, functions=funcs, bound=bound, twin=tv)
    if v == "sat":
        Em = [[sx.model_value(m, E.get(i, l)) for l in range(dim)] for i in range(n)]
        return result(name, VIOLATED, functions=funcs, bound=bound, twin=tv,
                      signature=f"C08|{fn}|sequential-vs-thresholded-matrix",
                      witness={"kind": "sequential", "fn": fn, "E": Em, "eps": sx.model_value(m, eps),
                               "mask": [bool(sx.model_value(m, x)) for x in mask.data] if mask else None})
    return result(name, INCONCLUSIVE, reason="solver unknown", functions=funcs, bound=bound)


def declared_types_line_dist():
    """read the C types `_line_dist` uses for the distance and the threshold from the parse tree"""
    mod = kern.module("timeseries")
    f = mod.funcs["_line_dist"].node
    run = Run(mod)
    types = {}
    d = f.declarator
    while not hasattr(d, "args"):
        d = d.base
    for an in d.args:
        types[run.decl_name(an.declarator)] = run.type_name(an.base_type)

    def walk(n):
        if type(n).__name__ == "CVarDefNode":
            for dd in n.declarators:
                types[run.decl_name(dd)] = run.type_name(n.base_type)
        for ca in n.child_attrs:
            c = getattr(n, ca)
            if isinstance(c, list):
                for x in c:
                    walk(x)
            elif c is not None and hasattr(c, "child_attrs"):
                walk(c)
    walk(f.body)
    out = {}
    for k in ("d", "eps"):
        out[k] = run.ctype(types.get(k))
    # the sequential entry points also declare `float eps`
    entry = {}
    for fn in SEQ_KERNELS + SEQ_MV_KERNELS:
        for an in mod.funcs[fn].node.args:
            if run.decl_name(an.declarator) == "eps":
                entry[fn] = run.ctype(run.type_name(an.base_type))
    return out, entry


def ob_fp_lemma(name):
    """IEEE lemma: can `(Td)d < (Teps)eps` differ from the double comparison `d < eps` used by matrix mode?"""
    mod = kern.module("timeseries")
    inner, entry = declared_types_line_dist()
    funcs = [mod.func_info("_line_dist")] + [mod.func_info(f) for f in SEQ_KERNELS]
    D = z3.FPSort(11, 53)
    F = z3.FPSort(8, 24)
    rm = z3.RNE()
    a, b = z3.FP("x_i", F), z3.FP("x_j", F)     # float32 samples (time series are stored as FIELD=float32)
    eps = z3.FP("eps", D)                        # python float threshold
    ad, bd = z3.fpFPToFP(rm, a, D), z3.fpFPToFP(rm, b, D)
    dist = z3.fpAbs(z3.fpSub(rm, ad, bd))        # metric_supremum in double, dim = 1
    bits_eps = min([inner["eps"][1]] + [t[1] for t in entry.values()])
    bits_d = inner["d"][1]
    dd = z3.fpFPToFP(rm, dist, F) if bits_d == 32 else dist
    ee = z3.fpFPToFP(rm, eps, F) if bits_eps == 32 else eps
    if bits_d == 32 and bits_eps == 32:
        seq = z3.fpLT(dd, ee)
    else:
        seq = z3.fpLT(z3.fpFPToFP(rm, dd, D) if bits_d == 32 else dd, z3.fpFPToFP(rm, ee, D) if bits_eps == 32 else ee)
    mat = z3.fpLT(dist, eps)
    fin = [z3.Not(z3.fpIsNaN(x)) for x in (a, b, eps)] + [z3.Not(z3.fpIsInf(x)) for x in (a, b, eps)]
    # replayable witness: small magnitudes
    box = [z3.fpLEQ(z3.fpAbs(a), z3.FPVal(8.0, F)), z3.fpLEQ(z3.fpAbs(b), z3.FPVal(8.0, F)),
           z3.fpGT(eps, z3.FPVal(2.0 ** -6, D)), z3.fpLT(eps, z3.FPVal(8.0, D))]
    bound = f"all finite float32 sample pairs, all finite double thresholds; declared types d:{inner['d']}, eps:{bits_eps} bits"
    v, m = Q.check(fin + [seq != mat], 300, tag=name)
    if v == "unsat":
        return result(name, HELD, functions=funcs, bound=bound, twin="sat")
    if v == "sat":
        v2, m2 = Q.check(fin + box + [seq != mat], 300, tag=name + "|normalised")
        mm = m2 if v2 == "sat" else m

        def fpval(x):
            val = mm.eval(x, model_completion=True)
            return float(eval(str(z3.simplify(z3.fpToReal(val)).as_fraction()))) if False else _fp_to_float(val)
        return result(name, VIOLATED, functions=funcs, bound=bound, twin="sat",
                      signature="C08|_line_dist|float32-threshold-compare",
                      witness={"kind": "fp", "x": [fpval(a), fpval(b)], "eps": fpval(eps)})
    return result(name, INCONCLUSIVE, reason="solver unknown", functions=funcs, bound=bound)


def _fp_to_float(val):
    import struct
    s = z3.simplify(z3.fpToIEEEBV(val))
    bits = s.as_long()
    if s.size() == 32:
        return struct.unpack("<f", struct.pack("<I", bits))[0]
    return struct.unpack("<d", struct.pack("<Q", bits))[0]


# ------------------------------------------------------------------------------ validation / prepare
def prepare(tier):
    """translator validation: interpreted kernel (concrete mode) == compiled extension"""
    import numpy as np
    from pyunicorn.timeseries._ext import numerics as TS
    mod = kern.module("timeseries")
    rng = np.random.default_rng(core.SEED + 8)
    ok = 0
    notes = []
    for fn in MATRIX_KERNELS + MV_KERNELS + SEQ_KERNELS + SEQ_MV_KERNELS:
        good = True
        for trial in range(6):
            n = int(rng.integers(1, 9))
            R = (rng.random((n, n)) < rng.random()).astype("int8")
            R = np.maximum(R, R.T)
            np.fill_diagonal(R, 1)
            mask = rng.random(n) < 0.3
            E = np.round(rng.random((n, 2)) * 4) / 4
            eps = 0.3
            h = np.zeros(n, dtype="int32")
            hh = Arr.full((n,), 0, "int32")
            try:
                if fn in MATRIX_KERNELS:
                    getattr(TS, fn)(n, h, R)
                    Run(mod, symbolic=False).call(fn, [n, hh, kern.from_numpy(R)])
                elif fn in MV_KERNELS:
                    getattr(TS, fn)(n, h, R, mask)
                    Run(mod, symbolic=False).call(fn, [n, hh, kern.from_numpy(R), kern.from_numpy(mask)])
                elif fn in SEQ_KERNELS:
                    getattr(TS, fn)(n, h, E, eps, 2)
                    Run(mod, symbolic=False).call(fn, [n, hh, kern.from_numpy(E, False), eps, 2])
                else:
                    getattr(TS, fn)(n, h, mask, E, eps, 2)
                    Run(mod, symbolic=False).call(fn, [n, hh, kern.from_numpy(mask), kern.from_numpy(E, False), eps, 2])
                same = list(h) == [int(x) for x in hh.data]
            except Exception as e:  # noqa
                same = False
                notes.append(f"{fn}: {type(e).__name__}: {e}")
            if same:
                ok += 1
            else:
                good = False
        _VALID[fn] = good
        if not good:
            notes.append(f"{fn}: interpreted != compiled")
    return {"validated": ok, "validation": notes,
            "source": {"timeseries/_ext/numerics.pyx": mod.sha}}


def obligations(tier):
    obs = []
    thorough = tier == "thorough"
    for fn in MATRIX_KERNELS:
        for n in (1, 2, 3, 4):
            nm = f"C08|{fn}|runlength|any|n={n}"
            obs.append((ob_matrix_kernel, dict(name=nm, fn=fn, n=n, mode="any", with_mask=False), 300))
        for n in ((5,) if not thorough else (5, 6)):
            nm = f"C08|{fn}|runlength|sym|n={n}"
            obs.append((ob_matrix_kernel, dict(name=nm, fn=fn, n=n, mode="sym", with_mask=False), 1500))
    for fn in MV_KERNELS:
        for n in ((2, 3, 4) if not thorough else (2, 3, 4, 5)):
            nm = f"C08|{fn}|runlength+mask|sym|n={n}"
            obs.append((ob_matrix_kernel, dict(name=nm, fn=fn, n=n, mode="sym", with_mask=True), 1500))
    for n in ((3, 4) if not thorough else (3, 4, 5)):
        obs.append((ob_accounting, dict(name=f"C08|accounting|n={n}", n=n), 600))
    for fn in SEQ_KERNELS:
        for n, dim in (((3, 1), (3, 2), (4, 1)) if not thorough else ((3, 1), (3, 2), (4, 1), (4, 2), (5, 1))):
            obs.append((ob_sequential, dict(name=f"C08|{fn}|seq=matrix|n={n},dim={dim}", fn=fn, n=n, dim=dim,
                                            with_mask=False), 900))
    for fn in SEQ_MV_KERNELS:
        for n, dim in (((3, 1),) if not thorough else ((3, 1), (4, 1), (3, 2))):
            obs.append((ob_sequential, dict(name=f"C08|{fn}|seq=matrix+mask|n={n},dim={dim}", fn=fn, n=n, dim=dim,
                                            with_mask=True), 900))
    obs.append((ob_fp_lemma, dict(name="C08|_line_dist|ieee-threshold-compare"), 900))
    return obs


# ------------------------------------------------------------------------------ replay
def replay(w):
    import numpy as np
    from pyunicorn.timeseries._ext import numerics as TS
    kind = w["kind"]
    if kind == "matrix":
        R = np.array(w["R"], dtype="int8")
        n = R.shape[0]
        fn = w["fn"]
        h = np.zeros(n, dtype="int32")
        mask = np.array(w["mask"], dtype=bool) if w.get("mask") is not None else None
        if mask is not None:
            getattr(TS, fn)(n, h, R, mask)
        else:
            getattr(TS, fn)(n, h, R)
        ref = ref_linedist(R.tolist(), "diag" if "diag" in fn else "vert", 0 if "white" in fn else 1,
                           mask.tolist() if mask is not None else None)
        return list(h) != ref, f"{fn}: compiled {list(h)} reference run-length count {ref}"
    if kind == "accounting":
        R = np.array(w["R"], dtype="int8")
        n = R.shape[0]
        hs = {}
        for fn in MATRIX_KERNELS:
            h = np.zeros(n, dtype="int32")
            getattr(TS, fn)(n, h, R)
            hs[fn] = h
        k = np.arange(1, n + 1)
        ok = ((k * hs["_vertline_dist"]).sum() + (k * hs["_white_vertline_dist"]).sum() == n * n and
              (k * hs["_vertline_dist"]).sum() == R.sum() and 2 * (k * hs["_diagline_dist"]).sum() + n == R.sum())
        return (not ok), f"accounting identities on R={R.tolist()}: {hs}"
    if kind == "sequential":
        E = np.array(core.to_float(w["E"]), dtype="float64")
        eps = float(core.to_float(w["eps"]))
        n, dim = E.shape
        fn = w["fn"]
        h = np.zeros(n, dtype="int32")
        mask = np.array(w["mask"], dtype=bool) if w.get("mask") is not None else None
        if mask is not None:
            getattr(TS, fn)(n, h, mask, E, eps, dim)
        else:
            getattr(TS, fn)(n, h, E, eps, dim)
        D = np.abs(E[:, None, :] - E[None, :, :]).max(axis=2)
        R = (D < eps).astype(int)
        ref = ref_linedist(R.tolist(), "diag" if "diag" in fn else "vert", 1, mask.tolist() if mask is not None else None)
        return list(h) != ref, f"{fn}: compiled {list(h)} reference on thresholded matrix {ref}"
    if kind == "fp":
        # through the public API: matrix mode vs sparse_rqa mode of RecurrencePlot
        from pyunicorn.timeseries import RecurrencePlot
        x = core.to_float(w["x"])
        eps = float(core.to_float(w["eps"]))
        ts = np.array([x[0], x[1], x[0]], dtype="float32")
        a = RecurrencePlot(ts, threshold=eps, metric="supremum", silence_level=3)
        b = RecurrencePlot(ts, threshold=eps, metric="supremum", sparse_rqa=True, silence_level=3)
        va, vb = a.vertline_dist(), b.vertline_dist()
        da, db = a.diagline_dist(), b.diagline_dist()
        differs = (list(va) != list(vb)) or (list(da) != list(db))
        return differs, (f"series {ts.tolist()} threshold {eps!r}: matrix mode vertline {list(va)} diagline {list(da)}; "
                         f"sequential mode vertline {list(vb)} diagline {list(db)}")
    return False, "unknown witness kind"
