"""C10 — similarity and coupling estimates equal reference statistics (Engine K on the funcnet kernels, C front end on the
surrogate-test / mutual-information routines, Engine P on the rank transform and the similarity glue of the climate classes)."""
import itertools
from fractions import Fraction

import numpy as np
import z3

from .. import cfront, core, kern, pe, sx
from ..core import HELD, INCONCLUSIVE, VIOLATED, Q, result
from ..kern import Arr, Run
from ..pe import SB, SV, Explorer, SymNd
from ..sx import add, and_, div, eq, ge, gt, implies, ite, le, lt, mul, ne, not_, or_, sub

PROP = "C10"
META = {
    "bounds": "cross-correlation kernels N<=3, tau_max<=2, window<=3 (symbolic standardised arrays); symmetrize N<=3; surrogate Pearson test "
              "N<=3, T<=3; histogram mutual information (both C routines) N<=2..3, T<=3, bins<=2 with log as an uninterpreted function; "
              "rank transform T<=4 x N<=2 symbolic anomalies (every ordering incl. ties); compiled vs pure-Python cross correlation at lag 0",
    "assumptions": ["exact reals: the float32 rounding of the results ('single-precision accuracy' of the statement) is outside",
                    "log is an uninterpreted function (equality of the sums of p*log(...) terms, not their numeric value)",
                    "numpy.corrcoef / numpy.linalg are trusted; only what pyunicorn hands to them is checked"],
    "outside": ["numerics of the knn estimator (growing-cube search loops with data-dependent trip counts), of the QR projection and of the "
                "digamma / log transforms: information_transfer is checked with recording stubs in their place", "gaussian MI estimator "
                "(probit transform through scipy.special)", "partial correlation (matrix inverse + square roots: NRA beyond reach at N>=3)",
                "standardisation with square roots inside CouplingAnalysis.cross_correlation (the kernels get symbolic standardised arrays)"],
}
FN = "funcnet"


def sym_arr(shape, prefix, dtype, mk=z3.Real):
    n = int(np.prod(shape))
    return Arr(shape, [mk(f"{prefix}{k}") for k in range(n)], dtype, prefix)


def mv_nested(m, a):
    return a.nested(lambda x: sx.model_value(m, x) if sx.is_sym(x) else x)


def decide_list(name, hyps, bad, funcs, bound, sig, witfn, timeout=120):
    nq = 0
    for lab, b in bad:
        if b is False:
            continue
        nq += 1
        v, m = Q.check(hyps + [b], timeout, tag=f"{name}|{lab}")
        if v == "sat":
            m = core.normalised_model(hyps + [b], 30) or m
            return result(name, VIOLATED, functions=funcs, bound=bound, twin="sat", signature=f"{sig}|{lab.split(' @')[0]}", witness=dict(witfn(m), label=lab))
        if v != "unsat":
            return result(name, INCONCLUSIVE, reason=f"solver unknown at {lab}", functions=funcs, bound=bound)
    tv, _ = Q.check(hyps, 20, tag=name + "|twin", want_model=False) if hyps else ("sat", None)
    return result(name, HELD, functions=funcs, bound=bound, twin=tv, detail=f"{nq} queries")


# ------------------------------------------------------------------------------------------------ funcnet kernels (Engine K)
def cc_spec(a, i, j, tau, tau_max, R):
    return div(sx.total(mul(a.get(tau, i, k), a.get(tau_max, j, k)) for k in range(R)), R)


def ob_cc_kernels(name, N, tau_max, R):
    mod = kern.module(FN)
    funcs = [mod.func_info("_cross_correlation_all"), mod.func_info("_cross_correlation_max")]
    bound = f"N={N}, tau_max={tau_max}, window={R}, symbolic standardised array"
    a = sym_arr((tau_max + 1, N, R), "a", "float32")
    bad = []
    run = Run(mod, loop_bound=max(N, R, tau_max + 1) + 1, split=False)
    out = run.call("_cross_correlation_all", [a.copy(), N, tau_max, R])
    bad.append(("cross_correlation_all raises", run.exc()))
    for i in range(N):
        for j in range(N):
            for lag in range(tau_max + 1):
                bad.append((f"lag_mode='all' entry is not the correlation of x_i(t-lag) with x_j(t) @{i},{j},{lag}",
                            ne(out.get(i, j, lag), cc_spec(a, i, j, tau_max - lag, tau_max, R))))
    run2 = Run(mod, loop_bound=max(N, R, tau_max + 1) + 1, split=False)
    sim, lagm = run2.call("_cross_correlation_max", [a.copy(), N, tau_max, R])
    bad.append(("cross_correlation_max raises", run2.exc()))
    for i in range(N):
        for j in range(N):
            s, l = sim.get(i, j), lagm.get(i, j)
            if i == j:
                bad.append((f"lag_mode='max' diagonal is not (1, 0) @{i}", or_(ne(s, 1), ne(l, 0))))
                continue
            cs = [cc_spec(a, i, j, tau_max - lag, tau_max, R) for lag in range(tau_max + 1)]          # indexed by lag
            at_lag = or_(*[and_(eq(l, lag), eq(s, cs[lag])) for lag in range(tau_max + 1)])
            bad.append((f"lag_mode='max' value is not the lag function at the reported lag @{i},{j}", not_(at_lag)))
            bad.append((f"lag_mode='max' value is not the absolute maximum of the lag function @{i},{j}",
                        or_(*[gt(sx.abs_(c), sx.abs_(s)) for c in cs])))
    # both lag modes agree: the 'max' pair is an entry of 'all'
    for i in range(N):
        for j in range(N):
            if i != j:
                s, l = sim.get(i, j), lagm.get(i, j)
                bad.append((f"lag modes disagree @{i},{j}", not_(or_(*[and_(eq(l, lag), eq(s, out.get(i, j, lag))) for lag in range(tau_max + 1)]))))
    hyps = run.assumptions + run2.assumptions

    def witfn(m):
        return {"kind": "cc", "N": N, "tau_max": tau_max, "R": R, "array": mv_nested(m, a)}
    return decide_list(name, hyps, bad, funcs, bound, "C10|cross_correlation kernels", witfn)


def ob_symmetrize(name, N):
    mod = kern.module(FN)
    funcs = [mod.func_info("_symmetrize_by_absmax")]
    S = sym_arr((N, N), "s", "float32")
    L = sym_arr((N, N), "l", "int8", z3.Int)
    hyps = [z3.And(x >= -100, x <= 100) for x in L.data]
    S0, L0 = S.copy(), L.copy()
    run = Run(mod, loop_bound=N + 1, split=False, hyps=hyps)
    so, lo = run.call("_symmetrize_by_absmax", [S, L, N])
    bad = [("symmetrize_by_absmax raises", run.exc())]
    for i in range(N):
        bad.append((f"diagonal changed @{i}", or_(ne(so.get(i, i), S0.get(i, i)), ne(lo.get(i, i), L0.get(i, i)))))
        for j in range(i + 1, N):
            a, b = S0.get(i, j), S0.get(j, i)
            bad.append((f"similarity not symmetric @{i},{j}", ne(so.get(i, j), so.get(j, i))))
            bad.append((f"lags not antisymmetric @{i},{j}", ne(lo.get(i, j), sx.neg(lo.get(j, i)))))
            bad.append((f"value is not the entry of larger modulus @{i},{j}",
                        not_(or_(and_(eq(so.get(i, j), a), ge(sx.abs_(a), sx.abs_(b)), eq(lo.get(i, j), L0.get(i, j))),
                                 and_(eq(so.get(i, j), b), ge(sx.abs_(b), sx.abs_(a)), eq(lo.get(j, i), L0.get(j, i)))))))

    def witfn(m):
        return {"kind": "symm", "N": N, "S": mv_nested(m, S0), "L": mv_nested(m, L0)}
    return decide_list(name, hyps + run.assumptions, bad, funcs, f"N={N}, symbolic similarity and lag matrices (|lag| <= 100)", "C10|symmetrize_by_absmax", witfn)


def ob_pure_vs_compiled(name, N, R):
    """lag 0: CouplingAnalysisPurePython._calculate_cc(lag_mode='all') equals the compiled _cross_correlation_all on the same standardised
    array, and the pure-Python 'max' value is the modulus of the compiled one"""
    from pyunicorn.funcnet import coupling_analysis_pure_python as ppmod
    mod = kern.module(FN)
    funcs = [mod.func_info("_cross_correlation_all"), mod.func_info("_cross_correlation_max"),
             "src/pyunicorn/funcnet/coupling_analysis_pure_python.py CouplingAnalysisPurePython._calculate_cc"]
    a = sym_arr((1, N, R), "a", "float32")
    run = Run(mod, loop_bound=max(N, R) + 1, split=False)
    out = run.call("_cross_correlation_all", [a.copy(), N, 0, R])
    run2 = Run(mod, loop_bound=max(N, R) + 1, split=False)
    sim, _ = run2.call("_cross_correlation_max", [a.copy(), N, 0, R])
    res = {}

    def harness(ex):
        with pe.patched([ppmod], {"pyunicorn.funcnet.coupling_analysis_pure_python": {"numpy": pe.NP}}):
            obj = object.__new__(ppmod.CouplingAnalysisPurePython)
            obj.N = N
            obj.only_tri = False
            obj.lag_modi = {"all": 0, "sum": 1, "max": 2}
            obj.silence_level = 3
            arr = SymNd(np.array([[[SV(a.get(0, i, k)) for k in range(R)] for i in range(N)]], dtype=object))
            allm = obj._calculate_cc(arr, tau_max=0, lag_mode="all")
            mx = obj._calculate_cc(arr, tau_max=0, lag_mode="max")
        out_ = []
        for i in range(N):
            for j in range(N):
                out_.append((f"pure-Python and compiled lag function differ @{i},{j}", ne(pe._num(allm[0, i, j]), out.get(i, j, 0))))
                if i != j:
                    out_.append((f"pure-Python maximum is not the modulus of the compiled value @{i},{j}", ne(pe._num(mx[0, i, j]), sx.abs_(sim.get(i, j)))))
        return out_
    ex = Explorer([], max_paths=256)
    try:
        paths = ex.run(harness)
    except pe.Unsupported as e:
        return result(name, INCONCLUSIVE, reason=f"unsupported: {e}", functions=funcs, bound=f"N={N}, window={R}")
    nq = 0
    for p in paths:
        for lab, b in p.result:
            if b is False:
                continue
            nq += 1
            v, m = Q.check(p.cond() + run.assumptions + run2.assumptions + [b], 60, tag=f"{name}|{lab}")
            if v == "sat":
                return result(name, VIOLATED, functions=funcs, bound=f"N={N}, window={R}", twin="sat", signature=f"C10|pure-python vs compiled|{lab.split(' @')[0]}",
                              witness={"kind": "ppcc", "N": N, "R": R, "array": mv_nested(m, a), "label": lab})
            if v != "unsat":
                return result(name, INCONCLUSIVE, reason="solver unknown", functions=funcs, bound=f"N={N}, window={R}")
    return result(name, HELD, functions=funcs, bound=f"N={N}, window={R}, tau_max=0, symbolic standardised array", twin="sat", detail=f"{len(paths)} paths, {nq} queries")


# ------------------------------------------------------------------------------------------------ C routines
def ob_pearson_test(name, N, T):
    from .C20 import extern_for
    mod = kern.module("timeseries")
    cm = cfront.cmodule("timeseries")
    funcs = [mod.func_info("_test_pearson_correlation"), cm.func_info("_test_pearson_correlation_fast")]
    od, su = sym_arr((N, T), "o", "float64"), sym_arr((N, T), "s", "float64")
    run = Run(mod, loop_bound=max(N, T) + 1, extern=extern_for("timeseries"), split=False)
    out = run.call("_test_pearson_correlation", [od.copy(), su.copy(), N, T])
    bad = [("test_pearson_correlation raises", run.exc())]
    for i in range(N):
        for j in range(N):
            exp = 0 if i == j else div(sx.total(mul(od.get(i, k), su.get(j, k)) for k in range(T)), T)
            bad.append((f"entry is not mean_t original_i(t) surrogate_j(t) @{i},{j}", ne(out.get(i, j), exp)))

    def witfn(m):
        return {"kind": "pearson_test", "N": N, "T": T, "original": mv_nested(m, od), "surrogates": mv_nested(m, su)}
    return decide_list(name, run.assumptions, bad, funcs, f"N={N}, T={T}, symbolic data", "C10|test_pearson_correlation", witfn)


LOG = z3.Function("c_log", z3.RealSort(), z3.RealSort())


def bin_spec(x, lo, scaling, nb):
    """bin number = how many of the interior bin edges the rescaled sample has reached (top edge belongs to the last bin)"""
    r = mul(scaling, sub(x, lo))
    return sx.total(ite(ge(r, Fraction(q, nb)), 1, 0) for q in range(1, nb))


def mi_spec(bi, bj, T, nb):
    tot = 0
    for l in range(nb):
        hl = sx.total(ite(eq(b, l), 1, 0) for b in bi)
        for m_ in range(nb):
            hm = sx.total(ite(eq(b, m_), 1, 0) for b in bj)
            h2 = sx.total(ite(and_(eq(b1, l), eq(b2, m_)), 1, 0) for b1, b2 in zip(bi, bj))
            if not sx.is_sym(hl) and not sx.is_sym(hm) and not sx.is_sym(h2):
                if hl > 0 and hm > 0 and h2 > 0:
                    plm = Fraction(h2, T)
                    tot = add(tot, mul(plm, LOG(sx.lift(plm / Fraction(hm, T) / Fraction(hl, T)))))
                continue
            pl, pm, plm = div(hl, T), div(hm, T), div(h2, T)
            term = mul(plm, LOG(sx.lift(div(div(plm, pm), pl))))
            tot = add(tot, ite(and_(gt(hl, 0), gt(hm, 0), gt(h2, 0)), term, 0))
    return tot


def ob_mi_range(name, N, T, nb):
    """_test_mutual_information (wrapper): the histogram range handed to the C routine is the common range of BOTH arrays
    (scaling = 1 / (max - min) over original data and surrogates, range_min = the common minimum); the C routine is not run here"""
    mod = kern.module("timeseries")
    funcs = [mod.func_info("_test_mutual_information")]
    od, su = sym_arr((N, T), "o", "float64"), sym_arr((N, T), "s", "float64")
    allv = od.data + su.data
    got = {}

    def ext(cname, args, run, g):
        got["args"] = args
        return None
    run = Run(mod, loop_bound=max(N, T, nb) + 1, extern=ext, split=False)
    run.call("_test_mutual_information", [od.copy(), su.copy(), N, T, nb])
    if "args" not in got:
        return result(name, INCONCLUSIVE, reason="the C routine was not reached", functions=funcs, bound=f"N={N}, T={T}")
    sc_, rmin_ = got["args"][3], got["args"][4]
    gmin = gmax = allv[0]
    for x in allv[1:]:
        gmin = ite(lt(x, gmin), x, gmin)
        gmax = ite(gt(x, gmax), x, gmax)
    rejected = or_(*[e.cond for e in run.events if e.kind == "ZeroDivisionError"]) if run.events else False
    width_bad = ne(mul(sc_, sub(gmax, gmin)), 1)
    if isinstance(sc_, z3.ExprRef) and z3.is_app_of(sc_, z3.Z3_OP_DIV) and z3.is_rational_value(sc_.arg(0)) and sc_.arg(0).as_fraction() == 1:
        width_bad = ne(sc_.arg(1), sub(gmax, gmin))          # scaling = 1 / width: compare the widths (keeps the query linear)
    bad = [("histogram range is not the common range of original data and surrogates", and_(gt(gmax, gmin), or_(ne(rmin_, gmin), width_bad))),
           ("data with a non-degenerate common range are rejected", and_(gt(gmax, gmin), rejected))]

    def witfn(m):
        return {"kind": "mi", "which": "surrogates", "N": N, "T": T, "bins": nb, "original": mv_nested(m, od), "surrogates": mv_nested(m, su)}
    return decide_list(name, run.assumptions, bad, funcs, f"N={N}, T={T}, symbolic data (any reals)", "C10|_test_mutual_information|range", witfn)


def ob_mi_kernel(name, which, N, T, nb):
    """histogram mutual information: (1) the symbol (bin number) the routine assigns to every sample is the bin of the rescaled sample,
    (2) for every assignment of bins to samples (case split; each case covers all data falling into those bins) every entry equals
    sum_lm p_lm log(p_lm / (p_l p_m)) of the joint histogram of the two series"""
    from .C20 import extern_for
    if which == "climate":
        pkg, fn, cfn = "climate", "mutual_information", "_mutual_information"
    else:
        pkg, fn, cfn = "timeseries", "_test_mutual_information", "_test_mutual_information_fast"
    mod, cm = kern.module(pkg), cfront.cmodule(pkg)
    funcs = [mod.func_info(fn), cm.func_info(cfn)]
    bound = f"{which}: N={N}, T={T}, {nb} bins, symbolic data in [0,1] attaining both ends"
    lo, hi = 0, 1
    if which == "climate":
        an = sym_arr((N, T), "a", "float32")
        allv = an.data
    else:
        od, su = sym_arr((N, T), "o", "float64"), sym_arr((N, T), "s", "float64")
        allv = od.data + su.data
    hyps = [z3.And(x >= lo, x <= hi) for x in allv] + [z3.Or(*[x == lo for x in allv]), z3.Or(*[x == hi for x in allv])]
    run = Run(mod, loop_bound=max(N, T, nb) + 1, extern=extern_for(pkg, stop=False), hyps=hyps, split=False)
    if which == "climate":
        out = run.call(fn, [an.copy(), T, N, nb, 1, 0])
        sym1 = sym2 = run.c_last_args[6].arr
        B = [[bin_spec(an.get(i, k), lo, 1, nb) for k in range(T)] for i in range(N)]
        B2 = B
    else:
        out = run.call(fn, [od.copy(), su.copy(), N, T, nb])
        sym1, sym2 = run.c_last_args[7].arr, run.c_last_args[8].arr
        B = [[bin_spec(od.get(i, k), lo, 1, nb) for k in range(T)] for i in range(N)]
        B2 = [[bin_spec(su.get(i, k), lo, 1, nb) for k in range(T)] for i in range(N)]
    # inputs the wrapper rejects with a Python exception (constant data: 1/(max-min)) are outside the statistic's domain
    rejected = or_(*[e.cond for e in run.events if e.kind == "ZeroDivisionError"]) if run.events else False
    allh = hyps + run.assumptions + [not_(rejected)]
    exc = or_(*[e.cond for e in run.events if e.kind not in ("DomainError", "ZeroDivisionError")]) if run.events else False

    def witfn(m):
        w = {"kind": "mi", "which": which, "N": N, "T": T, "bins": nb}
        if which == "climate":
            w["anomaly"] = mv_nested(m, an)
        else:
            w["original"], w["surrogates"] = mv_nested(m, od), mv_nested(m, su)
        return w
    bad = [("mutual information routine raises or leaves its arrays", exc)]
    for i in range(N):
        for k in range(T):
            bad.append((f"symbol of a sample is not its bin @{i},{k}", ne(sym1.data[i * T + k], B[i][k])))
            if sym2 is not sym1:
                bad.append((f"symbol of a surrogate sample is not its bin @{i},{k}", ne(sym2.data[i * T + k], B2[i][k])))
    r = decide_list(name, allh, bad, funcs, bound, f"C10|{cfn}", witfn, timeout=120)
    if r["status"] != HELD:
        return r
    nq = 0
    cells1 = [sym1.data[i * T + k] for i in range(N) for k in range(T)]
    cells2 = cells1 if sym2 is sym1 else [sym2.data[i * T + k] for i in range(N) for k in range(T)]
    ncase = 0
    for combo1 in itertools.product(range(nb), repeat=N * T):
        for combo2 in ([combo1] if sym2 is sym1 else itertools.product(range(nb), repeat=N * T)):
            fix = [sx.lift(c) == v for c, v in zip(cells1, combo1)] + ([] if sym2 is sym1 else [sx.lift(c) == v for c, v in zip(cells2, combo2)])
            # (patterns no data set realises make the queries below vacuously unsat; they are not filtered out)
            ncase += 1
            b1 = [list(combo1[i * T:(i + 1) * T]) for i in range(N)]
            b2 = [list(combo2[i * T:(i + 1) * T]) for i in range(N)]
            # under the case hypothesis the symbol cells are constants: rewrite them inside the output terms (equivalence preserving)
            subs = [(sx.lift(c), z3.IntVal(v)) for c, v in zip(cells1, combo1) if sx.is_sym(c)]
            if sym2 is not sym1:
                subs += [(sx.lift(c), z3.IntVal(v)) for c, v in zip(cells2, combo2) if sx.is_sym(c)]

            def spec_out(i, j):
                t = out.get(i, j)
                return z3.simplify(z3.substitute(sx.lift(t), *subs)) if sx.is_sym(t) else t
            for i in range(N):
                for j in range(N):
                    if i == j:
                        continue
                    exp = mi_spec(b1[i], b2[j], T, nb)
                    nq += 1
                    d_ = ne(spec_out(i, j), exp)
                    if d_ is False:
                        continue
                    v, m = Q.check([d_], 30, tag=f"{name}|mi {i},{j}|closed", want_model=False)     # without hypotheses: unsat is conclusive
                    if v != "unsat":
                        v, m = Q.check(allh + fix + [d_], 120, tag=f"{name}|mi {i},{j}")
                    if v == "sat":
                        return result(name, VIOLATED, functions=funcs, bound=bound, twin="sat",
                                      signature=f"C10|{cfn}|entry is not the mutual information of the joint histogram",
                                      witness=dict(witfn(m), label=f"bins {b1} / {b2}, entry {i},{j}"))
                    if v != "unsat":
                        return result(name, INCONCLUSIVE, reason="solver unknown on an entry", functions=funcs, bound=bound)
            if which == "climate":
                for i in range(N):
                    for j in range(i):
                        nq += 1
                        d_ = ne(spec_out(i, j), spec_out(j, i))
                        if d_ is False:
                            continue
                        v, m = Q.check([d_], 30, tag=f"{name}|symmetry|closed", want_model=False)
                        if v != "unsat":
                            v, m = Q.check(allh + fix + [d_], 60, tag=f"{name}|symmetry")
                        if v == "sat":
                            return result(name, VIOLATED, functions=funcs, bound=bound, twin="sat", signature=f"C10|{cfn}|matrix not symmetric",
                                          witness=dict(witfn(m), label="symmetry"))
    return result(name, HELD, functions=funcs, bound=bound, twin="sat", detail=r.get("detail", "") + f"; {ncase} bin patterns, {nq} entry queries")


# ------------------------------------------------------------------------------------------------ climate glue (Engine P)
class Recorder:
    def __init__(self):
        self.args = []

    def __call__(self, x, *a, **k):
        self.args.append(x)
        n = np.asarray(x, dtype=object).shape[0]
        return pe.NP.zeros((n, n))


def ob_ranks(name, T, N):
    """Spearman: the rank transform feeding the correlation must be the textbook one (average ranks for ties) up to a shift common to a
    series, for every ordering of every series; the matrix handed to corrcoef is the rank matrix with series as rows"""
    from pyunicorn.climate import spearman as smod
    funcs = ["src/pyunicorn/climate/spearman.py SpearmanClimateNetwork.rank_time_series/_calculate_correlation"]
    bound = f"T={T} samples x N={N} series, symbolic anomalies, every ordering incl. ties"
    X = [[z3.Real(f"x_{t}_{i}") for i in range(N)] for t in range(T)]

    def harness(ex):
        rec = Recorder()
        np_ = pe.NP
        with pe.patched([smod], {"pyunicorn.climate.spearman": {"rankdata": pe.rankdata_shim}}):
            obj = object.__new__(smod.SpearmanClimateNetwork)
            obj.silence_level = 3
            an = SymNd(np.array([[SV(X[t][i]) for i in range(N)] for t in range(T)], dtype=object))
            ranks = smod.SpearmanClimateNetwork.rank_time_series(an)
            saved = np_.__dict__.get("corrcoef")
            np_.__dict__["corrcoef"] = rec
            try:
                obj._calculate_correlation(an)
            finally:
                if saved is None:
                    np_.__dict__.pop("corrcoef", None)
                else:
                    np_.__dict__["corrcoef"] = saved
        out = []
        rk = np.asarray(ranks, dtype=object)
        for i in range(N):
            avg = [add(1, add(sx.total(ite(lt(X[u][i], X[t][i]), 1, 0) for u in range(T)),
                              div(sx.total(ite(eq(X[u][i], X[t][i]), 1, 0) for u in range(T) if u != t), 2))) for t in range(T)]
            for t in range(T):
                for u in range(t):
                    out.append(("ranks of a series are not the (average) ranks of its values",
                                ne(sub(pe._num(rk[t, i]), pe._num(rk[u, i])), sub(avg[t], avg[u]))))
        if len(rec.args) != 1:
            out.append(("corrcoef not called exactly once", True))
        else:
            arg = np.asarray(rec.args[0], dtype=object)
            if arg.shape != (N, T):
                out.append(("matrix handed to corrcoef is not the rank matrix with series as rows", True))
            else:
                for i in range(N):
                    for t in range(T):
                        out.append(("matrix handed to corrcoef is not the rank matrix with series as rows", ne(pe._num(arg[i, t]), pe._num(rk[t, i]))))
        return out
    ex = Explorer([], max_paths=4096)
    try:
        paths = ex.run(harness)
    except pe.Unsupported as e:
        return result(name, INCONCLUSIVE, reason=f"unsupported: {e}", functions=funcs, bound=bound)
    nq = 0
    for p in paths:
        for lab, b in p.result:
            if b is False:
                continue
            nq += 1
            v, m = (("sat", None) if b is True else Q.check(p.cond() + [b], 30, tag=f"{name}|{lab}"))
            if v == "sat":
                if m is None:
                    _, m = Q.check(p.cond(), 30, tag=f"{name}|model")
                m = core.normalised_model(p.cond() + ([b] if b is not True else []), 20) or m
                return result(name, VIOLATED, functions=funcs, bound=bound, twin="sat", signature=f"C10|SpearmanClimateNetwork|{lab}",
                              witness={"kind": "ranks", "T": T, "N": N, "label": lab,
                                       "anomaly": [[sx.model_value(m, X[t][i]) for i in range(N)] for t in range(T)]})
            if v != "unsat":
                return result(name, INCONCLUSIVE, reason="solver unknown", functions=funcs, bound=bound)
    if ex.truncated:
        return result(name, INCONCLUSIVE, reason="path cap", functions=funcs, bound=bound)
    return result(name, HELD, functions=funcs, bound=bound, twin="sat", detail=f"{len(paths)} paths, {nq} queries")


def ob_tsonis_glue(name, T, N):
    from pyunicorn.climate import tsonis as tmod
    funcs = ["src/pyunicorn/climate/tsonis.py TsonisClimateNetwork._calculate_correlation"]
    bound = f"T={T} x N={N} symbolic anomalies"
    X = [[z3.Real(f"x_{t}_{i}") for i in range(N)] for t in range(T)]
    rec = Recorder()
    np_ = pe.NP

    def harness(ex):
        rec.args.clear()
        with pe.patched([tmod]):
            obj = object.__new__(tmod.TsonisClimateNetwork)
            obj.silence_level = 3
            an = SymNd(np.array([[SV(X[t][i]) for i in range(N)] for t in range(T)], dtype=object))
            saved = np_.__dict__.get("corrcoef")
            np_.__dict__["corrcoef"] = rec
            try:
                obj._calculate_correlation(an)
            finally:
                if saved is None:
                    np_.__dict__.pop("corrcoef", None)
                else:
                    np_.__dict__["corrcoef"] = saved
        if len(rec.args) != 1:
            return [("corrcoef not called exactly once", True)]
        arg = np.asarray(rec.args[0], dtype=object)
        ok = arg.shape == (N, T) and all(pe._num(arg[i, t]) is X[t][i] or (eq(pe._num(arg[i, t]), X[t][i]) is True) for i in range(N) for t in range(T))
        return [] if ok else [("matrix handed to corrcoef is not the anomaly matrix with series as rows", True)]
    ex = Explorer([], max_paths=8)
    try:
        paths = ex.run(harness)
    except pe.Unsupported as e:
        return result(name, INCONCLUSIVE, reason=f"unsupported: {e}", functions=funcs, bound=bound)
    for p in paths:
        for lab, b in p.result:
            return result(name, VIOLATED, functions=funcs, bound=bound, twin="sat", signature=f"C10|TsonisClimateNetwork|{lab}",
                          witness={"kind": "tsonis", "T": T, "N": N, "label": lab})
    return result(name, HELD, functions=funcs, bound=bound, twin="sat", detail=f"{len(paths)} paths")


# ------------------------------------------------------------------------------------------------ information transfer (Engine P)
def term_vars(t):
    if isinstance(t, sx.NF):
        return term_vars(t.val) | term_vars(t.nan)
    seen, out, stack = set(), set(), [t]
    while stack:
        x = stack.pop()
        if not isinstance(x, z3.ExprRef) or x.get_id() in seen:
            continue
        seen.add(x.get_id())
        if z3.is_const(x) and x.decl().kind() == z3.Z3_OP_UNINTERPRETED:
            out.add(str(x))
        stack.extend(x.children())
    return out


def ob_information_transfer(name, estimator, cond_mode, lag_mode, N, T, tau_max, past):
    """CouplingAnalysis.information_transfer: the estimator of every (i, j, tau) receives X = x_i(t-tau), Y = x_j(t), Z = the documented
    conditioning set on the common time window; the value / lag bookkeeping of both lag modes is right.  The estimators are recording
    stubs returning one fresh value per call (knn: get_nearest_neighbors + digamma; gauss: scipy.linalg.qr + _par_corr_to_cmi), so the
    claim is about which samples are conditioned on which, not about the estimators' numerics."""
    from pyunicorn.funcnet import coupling_analysis as camod
    funcs = ["src/pyunicorn/funcnet/coupling_analysis.py CouplingAnalysis.information_transfer"]
    bound = f"{estimator}, cond_mode={cond_mode}, lag_mode={lag_mode}, N={N}, T={T}, tau_max={tau_max}, past={past}, symbolic data"
    D = [[z3.Real(f"d_{t}_{i}") for i in range(N)] for t in range(T)]
    max_lag = tau_max + past
    Tw = T - max_lag
    log = {"nn": [], "qr": [], "pc": [], "std": []}

    def expected_rows(i, j, tau):
        X, Y = [(i, -tau)], [(j, 0)]
        Z = [(j, -p) for p in range(1, past + 1)]
        if cond_mode == "mit":
            Z += [(i, -tau - p) for p in range(1, past + 1)]
        return [[D[max_lag + lag + k][var] for k in range(Tw)] for var, lag in X + Y + Z]

    def harness(ex):
        out = []
        for k in log:
            log[k].clear()

        def nn(array=None, xyz=None, k=None, standardize=True):
            arr = np.asarray(array, dtype=object)
            v = ex.fresh("real", "cmi")
            ex.assume(SB(v >= 0)) if False else None
            log["nn"].append({"rows": [[pe._num(x) for x in r] for r in arr], "v": v})
            n_ = arr.shape[1]
            return (pe.NP.zeros(n_), pe.NP.zeros(n_), SymNd(np.array([SV(v)] * n_, dtype=object)))

        class Special:
            @staticmethod
            def digamma(x):
                return 0 if not isinstance(x, np.ndarray) else x

        class Linalg:
            @staticmethod
            def qr(a, mode="full", **kw):
                arr = np.asarray(a, dtype=object)
                kq = len(log["qr"])
                Qs = [[z3.Real(f"q{kq}_{r}_{c}") for c in range(arr.shape[1])] for r in range(arr.shape[0])]
                log["qr"].append({"input": [[pe._num(x) for x in r] for r in arr], "syms": {str(x) for r in Qs for x in r}})
                return (SymNd(np.array([[SV(x) for x in r] for r in Qs], dtype=object)), None)

        def pc(par_corr):
            v = ex.fresh("real", "cmi")
            log["pc"].append({"arg": pe._num(par_corr), "v": v, "nqr": len(log["qr"])})
            return SV(v)
        def std_stub(self_, axis=None, **kw):
            # the standard deviation of a row is "some positive number" (constant series are rejected by the method): a fresh
            # symbol per row instead of a square root keeps the queries linear; which rows were standardised is recorded
            arr = np.asarray(self_, dtype=object)
            assert axis == 1 and arr.ndim == 2
            syms = []
            for r in range(arr.shape[0]):
                sv = ex.fresh("real", "std")
                ex.assume(SB(sv > 0))
                syms.append(sv)
            log["std"].append(syms)
            return SymNd(np.array([SV(x) for x in syms], dtype=object))
        saved_std = SymNd.std
        if estimator == "gauss":
            SymNd.std = std_stub

        class NPx:
            """numpy proxy whose sqrt is 'some positive number' (the value of the partial correlation is not part of this claim)"""

            def __getattr__(self, nm):
                return getattr(pe.NP, nm)

            def sqrt(self, a):
                if isinstance(a, np.ndarray):
                    return pe.NP.sqrt(a)
                sv = ex.fresh("real", "sqrt")
                ex.assume(SB(sv > 0))
                return SV(sv)
        with pe.patched([camod], {"pyunicorn.funcnet.coupling_analysis": {"numpy": (NPx() if estimator == "gauss" else pe.NP), "special": Special,
                                                                          "linalg": Linalg}}):
            obj = object.__new__(camod.CouplingAnalysis)
            obj.data = SymNd(np.array([[SV(D[t][i]) for i in range(N)] for t in range(T)], dtype=object))
            obj.N, obj.silence_level = N, 3
            obj.get_nearest_neighbors = nn
            obj._par_corr_to_cmi = pc
            try:
                res = obj.information_transfer(tau_max=tau_max, estimator=estimator, knn=1, past=past, cond_mode=cond_mode, lag_mode=lag_mode)
            except (IndexError, TypeError, KeyError, AttributeError) as e:
                return [(f"raises {type(e).__name__}", True)]
            except ValueError:
                return []            # documented rejection (NaNs / constant series) on this path
            finally:
                SymNd.std = saved_std
        triples = [(i, j, tau) for i in range(N) for j in range(N) for tau in range(tau_max + 1)]
        calls = log["nn"] if estimator == "knn" else log["pc"]
        if len(calls) != len(triples):
            return [("the estimator is not evaluated once per (i, j, tau)", True)]
        vals = {}
        for c, (i, j, tau) in zip(calls, triples):
            vals[(i, j, tau)] = c["v"]
            if estimator == "knn":
                exp = expected_rows(i, j, tau)
                if len(c["rows"]) != len(exp):
                    out.append(("number of series handed to the estimator", True))
                    continue
                out.append(("samples handed to the estimator are not X=x_i(t-tau), Y=x_j(t), Z=documented conditions on the common window",
                            or_(*[ne(a, b) for ra, rb in zip(c["rows"], exp) for a, b in zip(ra, rb)])))
            else:
                # provenance: the orthonormal basis entering this partial correlation is the one computed for THIS (i, j, tau)
                nconf = past * (2 if cond_mode == "mit" else 1)
                used = term_vars(c["arg"]) & set().union(*[q["syms"] for q in log["qr"]]) if log["qr"] else set()
                mine = log["qr"][c["nqr"] - 1] if c["nqr"] else None
                idx = triples.index((i, j, tau))
                if mine is None or c["nqr"] != idx + 1 or not used or not used <= mine["syms"]:
                    out.append(("partial correlation uses a confound basis that was not computed for this (i, j, tau)", True))
                    continue
                # that basis was computed from the standardised conditioning series of this triple: entry * std == deviation from the mean
                exp = expected_rows(i, j, tau)[2:]
                inp = mine["input"]                                  # (Tw, nconf): confounds transposed
                if len(inp) != Tw or len(inp[0]) != nconf:
                    out.append(("shape of the conditioning matrix handed to qr", True))
                    continue
                bad = []
                stds = log["std"][idx] if idx < len(log["std"]) else None
                if stds is None or len(stds) != 2 + nconf:
                    out.append(("standardisation is not applied once per (i, j, tau) to X, Y and the conditions", True))
                    continue
                for r in range(nconf):
                    mean = div(sx.total(exp[r]), Tw)
                    for k in range(Tw):
                        bad.append(ne(mul(inp[k][r], stds[2 + r]), sub(exp[r][k], mean)))
                out.append(("conditioning series handed to qr are not the standardised documented conditions", or_(*bad)))
        # bookkeeping
        if lag_mode == "all":
            R = np.asarray(res, dtype=object)
            for (i, j, tau), v in vals.items():
                exp = 0 if (i == j and tau == 0) else v
                out.append(("lag_mode='all' entry is not the estimate of its (i, j, tau)", ne(pe._num(R[i, j, tau]), exp)))
        else:
            S, L = (np.asarray(x, dtype=object) for x in res)
            for i in range(N):
                for j in range(N):
                    if i == j:
                        out.append(("lag_mode='max' diagonal not zero", ne(pe._num(S[i, j]), 0)))
                        continue
                    vs = [vals[(i, j, tau)] for tau in range(tau_max + 1)]
                    s_, l_ = pe._num(S[i, j]), pe._num(L[i, j])
                    best = or_(*[and_(eq(l_, tau), eq(s_, vs[tau])) for tau in range(tau_max + 1)])
                    allneg = and_(*[le(v, 0) for v in vs])
                    out.append(("lag_mode='max' value/lag is not the maximum of the lag function",
                                not_(or_(and_(allneg, eq(s_, 0)), and_(best, *[ge(s_, v) for v in vs])))))
        return [(l, b) for l, b in out if b is not False]
    ex = Explorer([], max_paths=4096)
    try:
        paths = ex.run(harness)
    except pe.Unsupported as e:
        return result(name, INCONCLUSIVE, reason=f"unsupported: {e}", functions=funcs, bound=bound)
    nq = 0
    for p in paths:
        for lab, b in p.result:
            nq += 1
            v, m = Q.check(p.cond() + ([b] if b is not True else []), 60, tag=f"{name}|{lab}")
            if v == "sat":
                return result(name, VIOLATED, functions=funcs, bound=bound, twin="sat", signature=f"C10|information_transfer|{estimator},{cond_mode}|{lab}",
                              witness={"kind": "it", "estimator": estimator, "cond_mode": cond_mode, "lag_mode": lag_mode, "N": N, "T": T,
                                       "tau_max": tau_max, "past": past, "label": lab})
            if v != "unsat":
                return result(name, INCONCLUSIVE, reason=f"solver unknown at {lab}", functions=funcs, bound=bound)
    if ex.truncated:
        return result(name, INCONCLUSIVE, reason="path cap", functions=funcs, bound=bound)
    return result(name, HELD, functions=funcs, bound=bound, twin="sat", detail=f"{len(paths)} paths, {nq} queries")


def prepare(tier):
    return {"validated": 0, "validation": [], "source": {"funcnet/_ext/numerics.pyx": kern.module(FN).sha,
                                                         "climate/_ext/src_numerics.c": cfront.cmodule("climate").sha,
                                                         "timeseries/_ext/src_numerics.c": cfront.cmodule("timeseries").sha}}


def obligations(tier):
    th = tier == "thorough"
    obs = []
    for N, tau, R in ([(2, 0, 2), (2, 1, 2), (2, 2, 3), (3, 1, 2)] + ([(3, 2, 3), (2, 3, 3), (4, 1, 2)] if th else [])):
        obs.append((ob_cc_kernels, dict(name=f"C10|cross_correlation kernels|N={N},tau_max={tau},window={R}", N=N, tau_max=tau, R=R), 1800))
    for N in ((2, 3) if not th else (2, 3, 4)):
        obs.append((ob_symmetrize, dict(name=f"C10|symmetrize_by_absmax|N={N}", N=N), 900))
    for N, R in ([(2, 2), (3, 3)] + ([(3, 4)] if th else [])):        # (4, 3) exhausted its 900 s budget (path forking on abs comparisons)
        obs.append((ob_pure_vs_compiled, dict(name=f"C10|pure-python vs compiled|N={N},window={R}", N=N, R=R), 900))
    for N, T in ([(2, 2), (2, 3), (3, 2)] + ([(3, 3), (4, 3), (2, 5)] if th else [])):
        obs.append((ob_pearson_test, dict(name=f"C10|test_pearson_correlation|N={N},T={T}", N=N, T=T), 900))
    for N, T in ([(2, 2), (2, 3), (3, 2)]):
        obs.append((ob_mi_range, dict(name=f"C10|histogram MI range (surrogates)|N={N},T={T}", N=N, T=T, nb=2), 900))
    for which in ("climate", "surrogates"):
        # (the case split has bins^(N*T) patterns for one array and bins^(2*N*T) for two: larger surrogate sizes exhaust the budget)
        extra = ([(3, 2, 2), (2, 3, 3), (3, 3, 2)] if which == "climate" else [(3, 2, 2)]) if th else []
        for N, T, nb in ([(2, 2, 2), (2, 3, 2)] + extra):
            obs.append((ob_mi_kernel, dict(name=f"C10|histogram MI ({which})|N={N},T={T},bins={nb}", which=which, N=N, T=T, nb=nb), 2400))
    for T, N in ([(3, 2), (4, 1)] + ([(4, 2), (5, 1)] if th else [])):
        obs.append((ob_ranks, dict(name=f"C10|Spearman ranks|T={T},N={N}", T=T, N=N), 1800))
    obs.append((ob_tsonis_glue, dict(name="C10|Tsonis glue|T=3,N=2", T=3, N=2), 600))
    for est, cm, lm in [("knn", "ity", "max"), ("knn", "mit", "max"), ("knn", "ity", "all"), ("knn", "mit", "all"), ("gauss", "ity", "max"),
                        ("gauss", "mit", "max"), ("gauss", "mit", "all")]:
        obs.append((ob_information_transfer, dict(name=f"C10|information_transfer|{est},{cm},{lm}", estimator=est, cond_mode=cm, lag_mode=lm,
                                                  N=2, T=5, tau_max=1, past=1), 1800))
    if th:
        # (tau_max=2, past=2 with T=8 exhausted a 3000 s budget: 3^4 orderings of the maxima per pair; tau_max=2, past=1 is the deeper variant kept)
        obs.append((ob_information_transfer, dict(name="C10|information_transfer|gauss,mit,max|tau_max=2,past=1", estimator="gauss", cond_mode="mit",
                                                  lag_mode="max", N=2, T=6, tau_max=2, past=1), 3000))
    return obs


# ------------------------------------------------------------------------------------------------ replay
def ref_mi(bi, bj, nb):
    T = len(bi)
    tot = 0.0
    for l in range(nb):
        for m_ in range(nb):
            pl, pm = np.mean(bi == l), np.mean(bj == m_)
            plm = np.mean((bi == l) & (bj == m_))
            if pl > 0 and pm > 0 and plm > 0:
                tot += plm * np.log(plm / pm / pl)
    return tot


def ref_bins(x, lo, hi, nb):
    r = (x - lo) / (hi - lo)
    return np.minimum((r * nb).astype(int), nb - 1)


def replay(w):
    f = core.to_float
    k = w["kind"]
    if k == "cc":
        from pyunicorn.funcnet._ext import numerics as FNK
        a = np.array(f(w["array"]), dtype="float32")
        N, tau_max, R = w["N"], w["tau_max"], w["R"]
        ref = np.zeros((N, N, tau_max + 1))
        for i in range(N):
            for j in range(N):
                for lag in range(tau_max + 1):
                    ref[i, j, lag] = float(np.dot(a[tau_max - lag, i].astype(float), a[tau_max, j].astype(float))) / R
        got = FNK._cross_correlation_all(a.copy(), N, tau_max, R)
        sim, lag = FNK._cross_correlation_max(a.copy(), N, tau_max, R)
        probs = []
        if not np.allclose(got, ref, rtol=1e-5, atol=1e-6):
            probs.append(f"lag_mode='all' {got.tolist()} vs reference {ref.tolist()}")
        for i in range(N):
            for j in range(N):
                if i == j:
                    continue
                if not np.isclose(abs(sim[i, j]), np.abs(ref[i, j]).max(), rtol=1e-5, atol=1e-6):
                    probs.append(f"lag_mode='max' value[{i},{j}]={sim[i, j]} but lag function {ref[i, j].tolist()}")
                elif not (0 <= lag[i, j] <= tau_max) or not np.isclose(sim[i, j], ref[i, j, lag[i, j]], rtol=1e-5, atol=1e-6):
                    probs.append(f"lag_mode='max' lag[{i},{j}]={lag[i, j]} with value {sim[i, j]} but lag function {ref[i, j].tolist()}")
        return bool(probs), "; ".join(probs[:4])
    if k == "symm":
        from pyunicorn.funcnet._ext import numerics as FNK
        S, L = np.array(f(w["S"]), dtype="float32"), np.array(w["L"], dtype="int8")
        so, lo = FNK._symmetrize_by_absmax(S.copy(), L.copy(), w["N"])
        probs = []
        for i in range(w["N"]):
            for j in range(i + 1, w["N"]):
                big = (i, j) if abs(S[i, j]) >= abs(S[j, i]) else (j, i)
                tie = abs(S[i, j]) == abs(S[j, i])
                okv = so[i, j] == so[j, i] and (so[i, j] == S[big] or (tie and so[i, j] in (S[i, j], S[j, i])))
                okl = lo[i, j] == -lo[j, i]
                if not (okv and okl):
                    probs.append(f"pair ({i},{j}): in {S[i, j]},{S[j, i]} lags {L[i, j]},{L[j, i]} -> out {so[i, j]},{so[j, i]} lags {lo[i, j]},{lo[j, i]}")
        return bool(probs), "; ".join(probs[:4])
    if k == "ppcc":
        from pyunicorn.funcnet._ext import numerics as FNK
        from pyunicorn.funcnet.coupling_analysis_pure_python import CouplingAnalysisPurePython
        a = np.array(f(w["array"]), dtype="float32")
        N, R = w["N"], w["R"]
        obj = object.__new__(CouplingAnalysisPurePython)
        obj.N, obj.only_tri, obj.lag_modi, obj.silence_level = N, False, {"all": 0, "sum": 1, "max": 2}, 3
        allm = obj._calculate_cc(a, tau_max=0, lag_mode="all")
        got = FNK._cross_correlation_all(a.copy(), N, 0, R)
        bad = not np.allclose(allm[0], got[:, :, 0], rtol=1e-5, atol=1e-6)
        return bad, f"pure python {allm[0].tolist()} vs compiled {got[:, :, 0].tolist()}"
    if k == "pearson_test":
        from pyunicorn.timeseries._ext import numerics as TS
        od, su = np.array(f(w["original"]), dtype=float), np.array(f(w["surrogates"]), dtype=float)
        got = TS._test_pearson_correlation(od, su, w["N"], w["T"])
        ref = od.dot(su.T) / w["T"]
        np.fill_diagonal(ref, 0)
        return (not np.allclose(got, ref, rtol=1e-5, atol=1e-6)), f"test_pearson_correlation {got.tolist()} vs reference {ref.tolist()}"
    if k == "mi":
        nb = w["bins"]
        if w["which"] == "climate":
            from pyunicorn.climate._ext import numerics as CL
            an = np.array(f(w["anomaly"]), dtype="float32")
            lo, hi = float(an.min()), float(an.max())
            got = CL.mutual_information(an, w["T"], w["N"], nb, 1. / (hi - lo), lo)
            B = [ref_bins(an[i].astype(float), lo, hi, nb) for i in range(w["N"])]
            ref = np.array([[0.0 if i == j else ref_mi(B[i], B[j], nb) for j in range(w["N"])] for i in range(w["N"])])
        else:
            from pyunicorn.timeseries._ext import numerics as TS
            od, su = np.array(f(w["original"]), dtype=float), np.array(f(w["surrogates"]), dtype=float)
            got = TS._test_mutual_information(od, su, w["N"], w["T"], nb)
            lo, hi = min(od.min(), su.min()), max(od.max(), su.max())
            B = [ref_bins(od[i], lo, hi, nb) for i in range(w["N"])]
            B2 = [ref_bins(su[i], lo, hi, nb) for i in range(w["N"])]
            ref = np.array([[0.0 if i == j else ref_mi(B[i], B2[j], nb) for j in range(w["N"])] for i in range(w["N"])])
        return (not np.allclose(got, ref, rtol=1e-4, atol=1e-6)), f"mutual information {np.asarray(got).tolist()} vs reference {ref.tolist()}"
    if k == "ranks":
        from scipy.stats import spearmanr
        from pyunicorn.climate.spearman import SpearmanClimateNetwork
        an = np.array(f(w["anomaly"]), dtype=float)
        T, N = an.shape
        if N == 1:
            # a second, strictly increasing series makes the statistic observable
            an = np.column_stack([an[:, 0], np.arange(T, dtype=float)])
        obj = object.__new__(SpearmanClimateNetwork)
        obj.silence_level = 3
        got = np.asarray(obj._calculate_correlation(an), dtype=float)
        import warnings
        with np.errstate(all="ignore"), warnings.catch_warnings():
            warnings.simplefilter("ignore")
            ref = np.array([[spearmanr(an[:, i], an[:, j])[0] if i != j else got[i, i] for j in range(an.shape[1])] for i in range(an.shape[1])])
        bad = not np.allclose(got, ref, rtol=1e-5, atol=1e-6, equal_nan=True)
        return bad, f"Spearman rho of series {an.T.tolist()}: {got.tolist()} vs rank correlation with average ranks {ref.tolist()}"
    if k == "it":
        from pyunicorn.funcnet import CouplingAnalysis
        rng = np.random.default_rng(11)
        T, N = 80, w["N"]
        x = np.zeros((T, N))
        for t in range(1, T):
            x[t] = 0.6 * x[t - 1] + 0.4 * np.roll(x[t - 1], 1) + rng.normal(size=N)
        ca = CouplingAnalysis(x, silence_level=3)
        try:
            res = ca.information_transfer(tau_max=w["tau_max"], estimator="gauss", past=w["past"], cond_mode=w["cond_mode"], lag_mode=w["lag_mode"])
        except Exception as e:  # noqa
            return True, f"information_transfer(estimator='gauss', cond_mode={w['cond_mode']!r}, lag_mode={w['lag_mode']!r}) raises {type(e).__name__}: {e}"
        # reference: partial correlation of X and Y given Z from least-squares residuals, per (i, j, tau)
        ml = w["tau_max"] + w["past"]
        ref = np.zeros((N, N, w["tau_max"] + 1))
        for i in range(N):
            for j in range(N):
                for tau in range(w["tau_max"] + 1):
                    Z = [(j, -p) for p in range(1, w["past"] + 1)]
                    if w["cond_mode"] == "mit":
                        Z += [(i, -tau - p) for p in range(1, w["past"] + 1)]
                    rows = [x[ml + lag: T + lag, var] for var, lag in [(i, -tau), (j, 0)] + Z]
                    rows = [(r - r.mean()) / r.std() for r in rows]
                    Zm = np.array(rows[2:]).T
                    rx = rows[0] - Zm.dot(np.linalg.lstsq(Zm, rows[0], rcond=None)[0])
                    ry = rows[1] - Zm.dot(np.linalg.lstsq(Zm, rows[1], rcond=None)[0])
                    pc = rx.dot(ry) / np.sqrt(rx.dot(rx) * ry.dot(ry))
                    ref[i, j, tau] = -0.5 * np.log(1 - pc ** 2)
        if w["lag_mode"] == "all":
            ref[range(N), range(N), 0] = 0
            bad = not np.allclose(res, ref, rtol=1e-4, atol=1e-5)
            return bad, f"lag functions differ from the reference partial-correlation statistic by up to {np.abs(res - ref).max():.3g}"
        S, L = res
        exp = ref.max(axis=2)
        np.fill_diagonal(exp, 0)
        bad = not np.allclose(S, exp, rtol=1e-4, atol=1e-5)
        return bad, f"maxima differ from the reference partial-correlation statistic by up to {np.abs(S - exp).max():.3g}"
    return False, "no replay for this witness kind"
