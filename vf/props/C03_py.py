"""C03 (Python level): structural measures of Network that Engine P can execute, compared with their definitions on the adjacency
matrix (bits mode: adjacency entries are solver variables) resp. on the path-length matrix (topologies mode, symbolic link lengths)."""
import itertools

import numpy as np
import z3

from .. import core, pe, pnet, sx
from ..core import HELD, INCONCLUSIVE, VIOLATED, Q, result
from ..pe import SV, Explorer, SymNd
from ..sx import add, and_, div, eq, ge, gt, implies, ite, le, lt, mul, ne, not_, or_, sub
from . import gk

PROP = "C03"
NW = "src/pyunicorn/core/network.py"


def mods():
    from pyunicorn.core import network as nm
    return [nm]


def total(xs):
    return sx.total(list(xs))


def run_bits(name, n, directed, specs, funcs, sig_prefix):
    """specs(net, A) -> list of (measure label, [violation conditions]); decided per label"""
    from pyunicorn.core.network import Network
    bound = f"all {'directed' if directed else 'undirected'} graphs n={n} (adjacency bits)"

    def harness(ex):
        with pe.patched(mods()):
            A, present = pnet.bits_adjacency(n, directed)
            w = SymNd(np.array([SV(1)] * n, dtype=object))
            net = pnet.make_network(Network, A, w, present, directed)
            Am = [[pe._num(np.asarray(A, dtype=object)[i, j]) for j in range(n)] for i in range(n)]
            return specs(net, Am), A
    ex = Explorer([], max_paths=2048)
    try:
        paths = ex.run(lambda e: harness(e))
    except pe.Unsupported as e:
        return [result(name, INCONCLUSIVE, reason=f"unsupported: {e}", functions=funcs, bound=bound)]
    finally:
        from pyunicorn.core.network import Network as N_
        pe.clear_caches(N_)
    found, unknown, nq = {}, [], 0
    for p in paths:
        labs, A = p.result
        for lab, conds in labs:
            sig = f"{sig_prefix}|{lab}"
            if sig in found:
                continue
            for b in conds:
                if b is False:
                    continue
                nq += 1
                v, m = (("sat", None) if b is True else Q.check(p.cond() + [b], 30, tag=f"{name}|{lab}"))
                if v == "sat":
                    if m is None:
                        _, m = Q.check(p.cond(), 30, tag=f"{name}|{lab}|model")
                    Am = [[(int(sx.model_value(m, pe._num(np.asarray(A, dtype=object)[i, j]))) if m is not None else 0) for j in range(n)] for i in range(n)]
                    found[sig] = {"kind": "py:c03", "A": Am, "directed": directed, "measure": lab}
                    break
                if v != "unsat":
                    unknown.append(lab)
    res = [result(f"{name}|{sig.split('|')[-1]}", VIOLATED, functions=funcs, twin="sat", bound=bound, signature=sig, witness=wit) for sig, wit in found.items()]
    if unknown:
        res.append(result(name, INCONCLUSIVE, reason=f"solver unknown at {sorted(set(unknown))[:4]}", functions=funcs, bound=bound))
        return res
    if ex.truncated:
        res.append(result(name, INCONCLUSIVE, reason="path cap", functions=funcs, bound=bound))
        return res
    res.append(result(name, HELD, functions=funcs, bound=bound, twin="sat", detail=f"{len(paths)} paths, {nq} queries" + (f"; except {sorted(found)}" if found else "")))
    return res


def cmp_list(got, exp):
    g = pe.flat_values(got)
    if len(g) != len(exp):
        return [True]
    from .C02 import neq
    out = []
    for a, b in zip(g, exp):
        d = neq(a, b)
        if d is not False:
            out.append(d)
    return out


def guarded(call, labs, lab):
    """a measure that raises for a graph inside its domain is a violation of its own ('raises' signature)"""
    try:
        return call()
    except (ValueError, IndexError, ZeroDivisionError, TypeError) as e:
        labs.append((f"{lab} raises {type(e).__name__}", [True]))
        return None


def ob_degree_family(name, n, directed):
    funcs = [f"{NW} Network.degree/indegree/outdegree/bildegree/average_neighbors_degree/max_neighbors_degree/matching_index/laplacian"]

    def specs(net, A):
        labs = []
        U = [[(A[i][j] if not directed else sx.ite(sx.or_(sx.eq(A[i][j], 1), sx.eq(A[j][i], 1)), 1, 0)) for j in range(n)] for i in range(n)]
        kout = [total(A[i][j] for j in range(n)) for i in range(n)]
        kin = [total(A[j][i] for j in range(n)) for i in range(n)]
        k = [add(kin[i], kout[i]) for i in range(n)] if directed else kout
        r = guarded(lambda: net.degree(), labs, "degree")
        if r is not None:
            labs.append(("degree", cmp_list(r, k)))
        r = guarded(lambda: net.indegree(), labs, "indegree")
        if r is not None:
            labs.append(("indegree", cmp_list(r, kin)))
        r = guarded(lambda: net.outdegree(), labs, "outdegree")
        if r is not None:
            labs.append(("outdegree", cmp_list(r, kout)))
        r = guarded(lambda: net.bildegree(), labs, "bildegree")
        if r is not None:
            labs.append(("bildegree", cmp_list(r, [total(mul(A[i][j], A[j][i]) for j in range(n)) for i in range(n)])))
        r = guarded(lambda: net.average_neighbors_degree(), labs, "average_neighbors_degree")
        if r is not None:
            g = pe.flat_values(r)
            if len(g) != n:
                labs.append(("average_neighbors_degree", [True]))
            elif directed:
                pass     # value check only in the undirected obligations (the ratio of bit sums with or-ed entries is beyond z3's NIA here)
            else:
                # sum_j U_ij k_j / k_i for nodes with neighbours (no demand on isolated nodes beyond "does not raise")
                labs.append(("average_neighbors_degree", [and_(gt(k[i], 0), ne(mul(g[i], k[i]), total(mul(U[i][j], k[j]) for j in range(n)))) for i in range(n)]))
        r = guarded(lambda: net.max_neighbors_degree(), labs, "max_neighbors_degree")
        if r is not None:
            g = pe.flat_values(r)
            conds = []
            for i in range(n):
                vals = [mul(U[i][j], k[j]) for j in range(n)]
                conds.append(or_(*[lt(g[i], v) for v in vals]))
                conds.append(and_(*[ne(g[i], v) for v in vals]))
            labs.append(("max_neighbors_degree", conds if len(g) == n else [True]))
        if not directed:
            r = guarded(lambda: net.matching_index(), labs, "matching_index")
            if r is not None:
                g = np.asarray(r, dtype=object)
                conds = []
                for i in range(n):
                    for j in range(n):
                        common = total(mul(A[i][l], A[j][l]) for l in range(n))
                        union = sub(add(k[i], k[j]), common)
                        conds.append(and_(gt(union, 0), ne(mul(pe._num(g[i, j]), union), common)))
                labs.append(("matching_index", conds))
        for direction in ("out", "in"):
            r = guarded(lambda: net.laplacian(direction=direction), labs, f"laplacian({direction})")
            if r is not None:
                g = np.asarray(r.d if isinstance(r, pe.SSparse) else r, dtype=object)
                dk = kout if direction == "out" else kin
                exp = [(sub(dk[i], A[i][i]) if i == j else sx.neg(A[i][j])) for i in range(n) for j in range(n)]
                labs.append((f"laplacian({direction})", cmp_list(g, exp)))
        return labs
    return run_bits(name, n, directed, specs, funcs, "C03|Network")


def ob_motif_clustering(name, n):
    """directed motif clustering coefficients (Fagiolo 2007): closed triples over possible triples, 0 where no triple is possible"""
    funcs = [f"{NW} Network.local_cyclemotif_clustering/local_midmotif_clustering/local_inmotif_clustering/local_outmotif_clustering/_motif_clustering_helper"]

    def specs(net, A):
        labs = []
        kout = [total(A[i][j] for j in range(n)) for i in range(n)]
        kin = [total(A[j][i] for j in range(n)) for i in range(n)]
        kbil = [total(mul(A[i][j], A[j][i]) for j in range(n)) for i in range(n)]
        R = range(n)
        tri = {
            "local_cyclemotif_clustering": lambda i: total(mul(mul(A[i][j], A[j][l]), A[l][i]) for j in R for l in R),
            "local_midmotif_clustering": lambda i: total(mul(mul(A[i][j], A[l][j]), A[l][i]) for j in R for l in R),
            "local_inmotif_clustering": lambda i: total(mul(mul(A[j][i], A[j][l]), A[l][i]) for j in R for l in R),
            "local_outmotif_clustering": lambda i: total(mul(mul(A[i][j], A[j][l]), A[i][l]) for j in R for l in R),
        }
        den = {
            "local_cyclemotif_clustering": lambda i: sub(mul(kin[i], kout[i]), kbil[i]),
            "local_midmotif_clustering": lambda i: sub(mul(kin[i], kout[i]), kbil[i]),
            "local_inmotif_clustering": lambda i: mul(kin[i], sub(kin[i], 1)),
            "local_outmotif_clustering": lambda i: mul(kout[i], sub(kout[i], 1)),
        }
        for meas in tri:
            r = guarded(lambda: getattr(net, meas)(), labs, meas)
            if r is None:
                continue
            g = pe.flat_values(r)
            conds = []
            for i in range(n):
                T = den[meas](i)
                conds.append(or_(and_(gt(T, 0), ne(mul(g[i], T), tri[meas](i))), and_(eq(T, 0), ne(g[i], 0))))
            labs.append((meas, conds if len(g) == n else [True]))
        return labs
    return run_bits(name, n, True, specs, funcs, "C03|Network")


def ob_path_family(name, n, graphs, directed=False):
    """measures built on the (link-length weighted) shortest-path matrix, for concrete topologies incl. disconnected ones and symbolic
    positive link lengths: closeness = (N-1) / sum_j d_ij with unreachable pairs counted as N, average path length over connected
    ordered pairs, global efficiency = mean of 1/d_ij over ordered pairs (0 for unreachable)"""
    from pyunicorn.core.network import Network
    funcs = [f"{NW} Network.path_lengths/closeness/average_path_length/global_efficiency (link_attribute given)"]
    bound = f"{len(graphs)} labelled {'directed ' if directed else ''}graphs n={n}, symbolic positive link lengths"
    W = np.zeros((n, n), dtype=object)
    hyps = []
    for i in range(n):
        for j in range(n):
            if i == j or (not directed and j < i):
                continue
            W[i, j] = SV(z3.Real(f"l_{i}_{j}"))
            if not directed:
                W[j, i] = W[i, j]
            hyps.append(W[i, j].v > 0)
    res, nq, npaths = [], 0, 0
    found = {}
    for G in graphs:
        def harness(ex, G=G):
            labs = []
            with pe.patched(mods()):
                A, present = pnet.concrete_adjacency(G, directed)
                w = SymNd(np.array([SV(1)] * n, dtype=object))
                net = pnet.make_network(Network, A, w, present, directed, {"la": SymNd(W.copy())})
                D = np.asarray(net.path_lengths("la"), dtype=object)
                dist = [[D[i, j] for j in range(n)] for i in range(n)]
                fin = [[not (isinstance(dist[i][j], float) and dist[i][j] == float("inf")) for j in range(n)] for i in range(n)]
                num = lambda x: pe._num(x)
                r = guarded(lambda: net.closeness("la"), labs, "closeness(link_attribute)")
                if r is not None:
                    g = pe.flat_values(r)
                    conds = []
                    for i in range(n):
                        ssum = total((num(dist[i][j]) if fin[i][j] else n) for j in range(n))
                        conds.append(ne(mul(g[i], ssum), n - 1))
                    labs.append(("closeness(link_attribute)", conds))
                r = guarded(lambda: net.average_path_length("la"), labs, "average_path_length(link_attribute)")
                if r is not None:
                    pairs = [(i, j) for i in range(n) for j in range(n) if i != j and fin[i][j]]
                    if pairs:
                        labs.append(("average_path_length(link_attribute)", [ne(mul(pe._num(r), len(pairs)), total(num(dist[i][j]) for i, j in pairs))]))
                r = guarded(lambda: net.global_efficiency("la"), labs, "global_efficiency(link_attribute)")
                if r is not None:
                    exp = div(total(div(1, num(dist[i][j])) for i in range(n) for j in range(n) if i != j and fin[i][j]), n * (n - 1))
                    labs.append(("global_efficiency(link_attribute)", [ne(pe._num(r), exp)]))
                # the memoised matrix must come back unchanged from these queries (they patch it temporarily)
                D2 = np.asarray(net.path_lengths("la"), dtype=object)
                same = all((isinstance(a, float) and isinstance(b, float) and a == b) or (not isinstance(a, float) and not isinstance(b, float))
                           for a, b in zip(D.ravel(), D2.ravel()))
                if not same:
                    labs.append(("path_lengths(link_attribute) changed by the queries", [True]))
            return labs
        ex = Explorer(hyps, max_paths=256)
        try:
            paths = ex.run(harness)
        except pe.Unsupported as e:
            return [result(name, INCONCLUSIVE, reason=f"unsupported: {e}", functions=funcs, bound=bound)]
        finally:
            pe.clear_caches(Network)
        npaths += len(paths)
        for p in paths:
            for lab, conds in p.result:
                sig = f"C03|Network|{lab}"
                if sig in found:
                    continue
                for b in conds:
                    if b is False:
                        continue
                    nq += 1
                    v, m = (("sat", None) if b is True else Q.check(hyps + p.cond() + [b], 30, tag=f"{name}|{lab}"))
                    if v == "sat":
                        if m is None:
                            _, m = Q.check(hyps + p.cond(), 30, tag=f"{name}|model")
                        found[sig] = {"kind": "py:c03path", "A": G, "measure": lab, "directed": directed,
                                      "W": [[(sx.model_value(m, W[i, j].v) if i != j and m is not None else 0) for j in range(n)] for i in range(n)]}
                        break
                    if v != "unsat":
                        return [result(name, INCONCLUSIVE, reason=f"solver unknown at {lab}", functions=funcs, bound=bound)]
    res = [result(f"{name}|{sig.split('|')[-1]}", VIOLATED, functions=funcs, twin="sat", bound=bound, signature=sig, witness=wit) for sig, wit in found.items()]
    res.append(result(name, HELD, functions=funcs, bound=bound, twin="sat", detail=f"{npaths} paths, {nq} queries" + (f"; except {sorted(found)}" if found else "")))
    return res


def obligations(tier):
    th = tier == "thorough"
    obs = []
    for n in (2, 3, 4):       # n = 5 (tried in the thorough tier): the ratio measures are unknown to z3 within 30 s per query
        obs.append((ob_degree_family, dict(name=f"C03|py degree family|undirected bits n={n}", n=n, directed=False), 2400))
    for n in ((2, 3) if not th else (2, 3, 4)):
        obs.append((ob_degree_family, dict(name=f"C03|py degree family|directed bits n={n}", n=n, directed=True), 2400))
        obs.append((ob_motif_clustering, dict(name=f"C03|py motif clustering|directed bits n={n}", n=n), 2400))
    for n in ((3, 4) if not th else (3, 4, 5)):
        graphs = list(gk.all_graphs(n))
        if n == 5:
            import random
            graphs = random.Random(core.SEED + 7).sample(graphs, 64)
        step = 16
        for ci in range(0, len(graphs), step):
            obs.append((ob_path_family, dict(name=f"C03|py path family|n={n}|graphs#{ci // step}", n=n, graphs=graphs[ci:ci + step]), 2400))
    from .C02 import all_digraphs
    for n in ((2, 3) if not th else (2, 3)):
        dg = list(all_digraphs(n))
        step = 16
        for ci in range(0, len(dg), step):
            obs.append((ob_path_family, dict(name=f"C03|py path family|directed n={n}|graphs#{ci // step}", n=n, graphs=dg[ci:ci + step], directed=True), 2400))
    return obs


def replay(w):
    from pyunicorn.core import Network
    A = np.array(w["A"], dtype=int)
    n = len(A)
    meas = w["measure"]
    if w["kind"] == "py:c03path":
        net = Network(adjacency=A, directed=bool(w.get("directed")), silence_level=3)
        Wm = np.array(core.to_float(w["W"]), dtype=float)
        net.set_link_attribute("la", Wm)
        D = net.path_lengths("la").copy()
        fin = np.isfinite(D)
        name = meas.split("(")[0]
        try:
            got = getattr(net, name)("la")
        except Exception as e:  # noqa
            return True, f"{name}('la') raises {type(e).__name__}: {e} on A={A.tolist()}"
        if name == "closeness":
            ref = (n - 1) / np.where(fin, D, n).sum(axis=1)
        elif name == "average_path_length":
            off = fin & ~np.eye(n, dtype=bool)
            ref = D[off].sum() / off.sum()
        else:
            off = fin & ~np.eye(n, dtype=bool)
            ref = (1 / D[off]).sum() / (n * (n - 1))
        return (not np.allclose(got, ref, rtol=1e-9)), f"{name}('la') = {got} vs definition {ref} on A={A.tolist()} lengths={Wm.tolist()}"
    directed = w["directed"]
    net = Network(adjacency=A, directed=directed, silence_level=3)
    U = ((A + A.T) > 0).astype(int)
    kout, kin = A.sum(axis=1), A.sum(axis=0)
    k = kin + kout if directed else kout
    if " raises " in meas:
        name = meas.split(" raises ")[0]
        fn = name.split("(")[0]
        try:
            if fn == "laplacian":
                net.laplacian(direction=name.split("(")[1].rstrip(")"))
            else:
                getattr(net, fn)()
        except Exception as e:  # noqa
            return True, f"{fn}() raises {type(e).__name__}: {e} on A={A.tolist()} ({'directed' if directed else 'undirected'})"
        return False, f"{fn}() did not raise on A={A.tolist()}"
    with np.errstate(all="ignore"):
        A3 = {"local_cyclemotif_clustering": (A @ A @ A, kin * kout - (A * A.T).sum(axis=1)), "local_midmotif_clustering": (A @ A.T @ A, kin * kout - (A * A.T).sum(axis=1)),
              "local_inmotif_clustering": (A.T @ A @ A, kin * (kin - 1)), "local_outmotif_clustering": (A @ A @ A.T, kout * (kout - 1))}
        ref = {
            "degree": lambda: k, "indegree": lambda: kin, "outdegree": lambda: kout, "bildegree": lambda: (A * A.T).sum(axis=1),
            "average_neighbors_degree": lambda: np.where(k > 0, U.dot(k) / np.where(k > 0, k, 1), np.nan),
            "max_neighbors_degree": lambda: (U * k).max(axis=1),
            "matching_index": lambda: np.where((k[:, None] + k[None, :] - A @ A) > 0, (A @ A) / np.where((k[:, None] + k[None, :] - A @ A) > 0, k[:, None] + k[None, :] - A @ A, 1), np.nan),
            "laplacian(out)": lambda: np.diag(kout) - A, "laplacian(in)": lambda: np.diag(kin) - A,
        }
        for m_, (num, den) in A3.items():
            ref[m_] = (lambda num=num, den=den: np.where(den > 0, np.diag(num) / np.where(den > 0, den, 1), 0.0))
        fn = meas.split("(")[0]
        got = net.laplacian(direction=meas.split("(")[1].rstrip(")")) if fn == "laplacian" else getattr(net, fn)()
        got = np.asarray(got.toarray() if hasattr(got, "toarray") else got, dtype=float)
        r = np.asarray(ref[meas](), dtype=float)
        mask = ~np.isnan(r)
        bad = got.shape != r.shape or not np.allclose(got[mask], r[mask], rtol=1e-9)
    return bool(bad), f"{meas} = {got.tolist()} vs definition {r.tolist()} on A={A.tolist()} ({'directed' if directed else 'undirected'})"


def prepare(tier):
    return {"validated": 0, "validation": []}
