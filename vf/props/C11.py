"""C11 — cross/internal measures of interacting networks match sub-blocks (Engine K part; P part in C11_py)."""
from .. import core, kern
from . import gk

PROP = "C11"
META = {
    "bounds": "compiled kernels: all undirected graphs n<=4 with all 50 ordered pairs of disjoint node lists (n=5: all 180 pairs "
              "thorough / VERIF_SEED-sampled 40 quick), ascending and shuffled list order; n.s.i. kernels: real weights>0",
    "assumptions": ["exact real arithmetic", "norm argument of _cross_local_clustering = k(k-1)/2 of the cross degree, as the wrapper passes",
                    "n.s.i. cross transitivity with no cross link at all (0/0) is outside the definition"],
    "outside": ["cross_betweenness / internal_betweenness (igraph)"],
}


def prepare(tier):
    notes = []
    ok = gk.validate(notes, ("cross",))
    out = {"validated": ok, "validation": notes, "source": {"core/_ext/numerics.pyx": kern.module("core").sha}}
    try:
        from . import C11_py
        extra = C11_py.prepare(tier)
        out["validated"] += extra.get("validated", 0)
        out["validation"] += extra.get("validation", [])
    except ImportError:
        pass
    return out


def chunks(lst, k):
    return [lst[i:i + k] for i in range(0, len(lst), k)]


def obligations(tier):
    th = tier == "thorough"
    obs = []
    for n in (2, 3, 4):
        pairs = gk.disjoint_pairs(n)
        for ci, ch in enumerate(chunks(pairs, 10)):
            obs.append((gk.ob_cross_kernels, dict(name=f"C11|cross kernels|n={n}|pairs#{ci}", prop=PROP, n=n, pairs=ch), 900))
            obs.append((gk.ob_nsi_cross_kernels, dict(name=f"C11|nsi cross kernels|n={n}|pairs#{ci}", prop=PROP, n=n, pairs=ch), 900))
        obs.append((gk.ob_cross_kernels, dict(name=f"C11|cross kernels|n={n}|shuffled lists", prop=PROP, n=n,
                                              pairs=pairs[:20], shuffle_seed=core.SEED + 1), 900))
    pairs5 = gk.disjoint_pairs(5, cap=None if th else 40, seed=core.SEED)
    for ci, ch in enumerate(chunks(pairs5, 10)):
        obs.append((gk.ob_cross_kernels, dict(name=f"C11|cross kernels|n=5|pairs#{ci}", prop=PROP, n=5, pairs=ch), 1500))
        if th:
            obs.append((gk.ob_nsi_cross_kernels, dict(name=f"C11|nsi cross kernels|n=5|pairs#{ci}", prop=PROP, n=5, pairs=ch), 1500))
    try:
        from . import C11_py
        obs.extend(C11_py.obligations(tier))
    except ImportError:
        pass
    return obs


def replay(w):
    if w.get("kind", "").startswith("py:"):
        from . import C11_py
        return C11_py.replay(w)
    return gk.replay(w)
