"""C14 — visibility graphs realise the geometric visibility criterion (Engine K + wrapper level via Engine P)."""
import z3

from .. import core, kern, kcheck, sx
from ..core import HELD, INCONCLUSIVE, VIOLATED, Q, result
from ..kcheck import decide, mv
from ..kern import Arr, Run
from ..sx import NF, and_, eq, ite, lt, mul, ne, not_, or_, sub

PROP = "C14"
META = {
    "bounds": "n<=6 quick / n<=8 thorough samples with the default integer timings, n<=4/5 with symbolic increasing "
              "timings; missing-value masks: every NaN pattern; clustering kernels: all graphs n<=5/6",
    "assumptions": [
        "exact rational arithmetic (the statement prescribes it) for the criterion obligations",
        "IEEE lemma: three samples, signed 6-bit integer values, the listed timing triples; float semantics = C usual arithmetic conversions over the declared types",
        "R+NaN domain: a sample is a pair (is-NaN, real); comparisons with NaN are false as in IEEE",
    ],
    "outside": ["float32 rounding of slopes", "retarded/advanced closeness and betweenness (igraph / n.s.i. betweenness, see C03)"],
}

TS = "timeseries"


def sym_series(n, nan=False, prefix="x"):
    vals = [z3.Real(f"{prefix}{i}") for i in range(n)]
    if not nan:
        return vals, [False] * n
    nans = [z3.Bool(f"{prefix}nan{i}") for i in range(n)]
    return [NF(nn, v) for nn, v in zip(nans, vals)], nans


def raw(v):
    return v.val if isinstance(v, NF) else v


def spec_natural(x, t, nans, n):
    """link(i,j) <=> no NaN among i..j and every intermediate strictly below the chord (cross-multiplied)"""
    L = {}
    for i in range(n):
        for j in range(i + 1, n):
            c = and_(not_(nans[i]), not_(nans[j]))
            for k in range(i + 1, j):
                below = lt(mul(sub(raw(x[k]), raw(x[i])), sub(t[j], t[i])), mul(sub(raw(x[j]), raw(x[i])), sub(t[k], t[i])))
                c = and_(c, not_(nans[k]), below)
            L[(i, j)] = c
    return L


def spec_horizontal(x, nans, n):
    L = {}
    for i in range(n):
        for j in range(i + 1, n):
            c = and_(not_(nans[i]), not_(nans[j]))
            for k in range(i + 1, j):
                c = and_(c, not_(nans[k]), lt(raw(x[k]), raw(x[i])), lt(raw(x[k]), raw(x[j])))
            L[(i, j)] = c
    return L


def run_kernel(fn, x, t, nans, n, prefix="k", hyps=None):
    mod = kern.module(TS)
    A = Arr.full((n, n), 0, "int8")
    run = Run(mod, loop_bound=n + 1, prefix=prefix, hyps=hyps, split={"k"})
    xa = Arr((n,), list(x), "float32")
    if fn == "_visibility_relations_horizontal":
        run.call(fn, [xa, n, A])
    elif fn == "_visibility_relations_missingvalues":
        run.call(fn, [xa, Arr((n,), list(t), "float32"), n, A, Arr((n,), list(nans), "bool")])
    else:
        run.call(fn, [xa, Arr((n,), list(t), "float32"), n, A])
    return A, run


def timings(n, symbolic):
    if not symbolic:
        return list(range(n)), []
    t = [z3.Real(f"t{i}") for i in range(n)]
    return t, [t[i] < t[i + 1] for i in range(n - 1)]


def ob_criterion(name, fn, n, sym_t, nan):
    mod = kern.module(TS)
    x, nans = sym_series(n, nan)
    t, thyp = timings(n, sym_t)
    A, run = run_kernel(fn, x, t, nans, n, hyps=thyp)
    if fn == "_visibility_relations_horizontal":
        L = spec_horizontal(x, nans, n)
    else:
        L = spec_natural(x, t, nans, n)
    bad = [not_(run.ok())]
    for i in range(n):
        bad.append(ne(A.get(i, i), 0))
        for j in range(i + 1, n):
            linked = eq(A.get(i, j), 1)
            bad.append(or_(ne(A.get(i, j), A.get(j, i)), ne(linked, L[(i, j)])))
    funcs = [mod.func_info(fn)]
    bound = f"n={n}, {'symbolic increasing' if sym_t else 'default integer'} timings, {'NaN-able' if nan else 'real'} samples"

    def wit(m):
        return {"kind": "criterion", "fn": fn, "x": [mv(m, v) for v in x], "t": [mv(m, v) for v in t],
                "A_predicted": kcheck.mv_arr(m, A)}
    return decide(name, run.assumptions + thyp, bad, funcs, bound,
                  f"C14|{fn}|criterion" + ("|nan-sample" if nan else ""), wit, timeout=240)


def ob_reversal(name, fn, n):
    """time reversal mirrors the graph: A'(n-1-i, n-1-j) = A(i, j) for x'_i = x_{n-1-i}, t'_i = -t_{n-1-i}"""
    mod = kern.module(TS)
    x, nans = sym_series(n, False)
    t, thyp = timings(n, False)
    A, r1 = run_kernel(fn, x, t, nans, n, "k1")
    xr = list(reversed(x))
    tr = [-(n - 1 - i) + (n - 1) for i in range(n)]          # shifted back to 0..n-1 (also checks shift invariance)
    tr = [-t[n - 1 - i] for i in range(n)]
    B, r2 = run_kernel(fn, xr, tr, nans, n, "k2")
    bad = or_(not_(r1.ok()), not_(r2.ok()))
    for i in range(n):
        for j in range(n):
            bad = or_(bad, ne(A.get(i, j), B.get(n - 1 - i, n - 1 - j)))
    funcs = [mod.func_info(fn)]

    def wit(m):
        return {"kind": "reversal", "fn": fn, "x": [mv(m, v) for v in x], "t": list(t)}
    return decide(name, r1.assumptions + r2.assumptions + thyp, bad, funcs, f"n={n} real samples, integer timings",
                  f"C14|{fn}|time-reversal", wit, timeout=240)


def ob_affine(name, fn, n, a, c):
    """A(a*x+b, c*t+d) == A(x, t) for the given positive a, c and symbolic b, d"""
    mod = kern.module(TS)
    x, nans = sym_series(n, False)
    t, thyp = timings(n, False)
    b, d = z3.Real("b"), z3.Real("d")
    A, r1 = run_kernel(fn, x, t, nans, n, "k1")
    x2 = [sx.add(mul(a, v), b) for v in x]
    t2 = [sx.add(mul(c, v), d) for v in t]
    B, r2 = run_kernel(fn, x2, t2, nans, n, "k2")
    bad = or_(not_(r1.ok()), not_(r2.ok()))
    for k in range(n * n):
        bad = or_(bad, ne(A.data[k], B.data[k]))
    funcs = [mod.func_info(fn)]

    def wit(m):
        return {"kind": "affine", "fn": fn, "x": [mv(m, v) for v in x], "t": list(t), "a": a, "b": mv(m, b),
                "c": c, "d": mv(m, d)}
    return decide(name, r1.assumptions + r2.assumptions + thyp, bad, funcs,
                  f"n={n}, a={a}, c={c}, symbolic offsets", f"C14|{fn}|affine-invariance", wit, timeout=240)


def ob_clustering(name, fn, n):
    """_retarded/_advanced_local_clustering == (# triangles among past/future neighbours) / norm"""
    mod = kern.module(TS)
    A, bits = kern.sym_adj(n, "a")
    norm = Arr((n,), [0] * n, "float64")
    out = Arr.full((n,), 0, "float64")
    past = fn == "_retarded_local_clustering"
    degs = []
    for i in range(n):
        rng = range(i) if past else range(i + 1, n)
        dg = sx.total(A.get(i, j) for j in rng)
        degs.append(dg)
        norm.data[i] = sx.div(mul(dg, sub(dg, 1)), 2)
    run = Run(mod, loop_bound=n + 1)
    run.call(fn, [n, A, norm, out])
    bad = not_(run.ok())
    for i in range(n):
        rng = list(range(i)) if past else list(range(i + 1, n))
        tri = 0
        for p in range(len(rng)):
            for q in range(p + 1, len(rng)):
                j, k = rng[p], rng[q]
                tri = sx.add(tri, ite(and_(eq(A.get(i, j), 1), eq(A.get(i, k), 1), eq(A.get(j, k), 1)), 1, 0))
        pairs = norm.data[i]
        expect = ite(eq(pairs, 0), 0, sx.div(tri, ite(eq(pairs, 0), 1, pairs)))
        bad = or_(bad, ne(out.data[i], expect))
    funcs = [mod.func_info(fn)]

    def wit(m):
        return {"kind": "clustering", "fn": fn, "A": kcheck.mv_arr(m, A)}
    return decide(name, run.assumptions, bad, funcs, f"all undirected graphs n={n}",
                  f"C14|{fn}|triangle-definition", wit, timeout=240)


def ob_fp_consistency(name, fn, ts, bits):
    """IEEE lemma (domain F): on small-integer data the kernel's float comparisons -- evaluated with the C
    types declared in the .pyx and C's usual arithmetic conversions -- decide exactly like the rational
    criterion.  Exposes mixed-precision slope comparisons (collinear triples)."""
    mod = kern.module(TS)
    n = len(ts)
    F = sx.F32
    xb = [z3.BitVec(f"xb{i}", bits) for i in range(n)]
    x = [z3.fpSignedToFP(sx.RNE, b, F) for b in xb]
    t = [z3.FPVal(float(v), F) for v in ts]
    A = Arr.full((n, n), 0, "int8")
    run = Run(mod, loop_bound=n + 1, domain="F", feas_timeout_ms=500, split={"k"})
    if fn == "_visibility_relations_horizontal":
        run.call(fn, [Arr((n,), x, "float32"), n, A])
    elif fn == "_visibility_relations_missingvalues":
        run.call(fn, [Arr((n,), x, "float32"), Arr((n,), t, "float32"), n, A, Arr((n,), [False] * n, "bool")])
    else:
        run.call(fn, [Arr((n,), x, "float32"), Arr((n,), t, "float32"), n, A])
    W = bits + 8
    xe = [z3.SignExt(W - bits, b) for b in xb]
    bad = [not_(run.ok())]
    for i in range(n):
        for j in range(i + 2, n):
            c = True
            for k in range(i + 1, j):
                if fn == "_visibility_relations_horizontal":
                    c = and_(c, xe[k] < xe[i], xe[k] < xe[j])
                else:
                    c = and_(c, (xe[k] - xe[i]) * (ts[j] - ts[i]) < (xe[j] - xe[i]) * (ts[k] - ts[i]))
            bad.append(ne(eq(A.get(i, j), 1), c))

    def wit(m):
        return {"kind": "criterion", "fn": fn, "x": [m.eval(b, model_completion=True).as_signed_long() for b in xb],
                "t": list(ts)}
    return decide(name, run.assumptions, or_(*bad), [mod.func_info(fn)],
                  f"timings {ts}, samples = all signed {bits}-bit integers as float32; IEEE-754 float32/float64 semantics "
                  "with the declared C types", f"C14|{fn}|ieee-consistency", wit, timeout=600, twin=False)


# ---------------------------------------------------------------------------------- prepare
def prepare(tier):
    import numpy as np
    notes = []
    ok = 0

    def mk_nat(rng, t):
        n = int(rng.integers(2, 10))
        x = (rng.integers(0, 6, n)).astype("float32")
        tt = np.cumsum(rng.integers(1, 4, n)).astype("float32")
        A = np.zeros((n, n), dtype="int8")
        return [x, tt, n, A], [kern.from_numpy(x, False), kern.from_numpy(tt, False), n, Arr.full((n, n), 0, "int8")]

    def mk_mv(rng, t):
        c, i = mk_nat(rng, t)
        n = c[2]
        mask = rng.random(n) < 0.25
        x = c[0].copy()
        x[mask] = np.nan
        c[0] = x
        i[0] = Arr((n,), [float(v) for v in x], "float32")
        return c + [mask], i + [kern.from_numpy(mask)]

    def mk_h(rng, t):
        c, i = mk_nat(rng, t)
        return [c[0], c[2], c[3]], [i[0], i[2], i[3]]

    cmpA = lambda cres, cargs, ires, iargs: (kern.to_numpy([a for a in iargs if isinstance(a, Arr) and a.ndim == 2][0]) ==
                                             [a for a in cargs if hasattr(a, "ndim") and a.ndim == 2][0]).all()
    ok += kcheck.validate_kernel(TS, "_visibility_relations_no_missingvalues", mk_nat, 6, cmpA, notes)
    ok += kcheck.validate_kernel(TS, "_visibility_relations_missingvalues", mk_mv, 6, cmpA, notes)
    ok += kcheck.validate_kernel(TS, "_visibility_relations_horizontal", mk_h, 6, cmpA, notes)

    def mk_cl(rng, t):
        n = int(rng.integers(2, 9))
        A = (rng.random((n, n)) < 0.5).astype("int8")
        A = np.triu(A, 1)
        A = A + A.T
        norm = rng.integers(0, 3, n).astype("float64")
        out = np.zeros(n)
        return [n, A, norm, out], [n, kern.from_numpy(A), kern.from_numpy(norm, False), Arr.full((n,), 0.0, "float64")]
    cmpo = lambda cres, cargs, ires, iargs: kcheck.close(cargs[3], kern.to_numpy(iargs[3]))
    ok += kcheck.validate_kernel(TS, "_retarded_local_clustering", mk_cl, 5, cmpo, notes)
    ok += kcheck.validate_kernel(TS, "_advanced_local_clustering", mk_cl, 5, cmpo, notes)
    return {"validated": ok, "validation": notes, "source": {"timeseries/_ext/numerics.pyx": kern.module(TS).sha}}


def obligations(tier):
    th = tier == "thorough"
    obs = []
    nat, mvk, hor = ("_visibility_relations_no_missingvalues", "_visibility_relations_missingvalues",
                     "_visibility_relations_horizontal")
    for n in (range(2, 7) if not th else range(2, 9)):
        obs.append((ob_criterion, dict(name=f"C14|{nat}|criterion|n={n}", fn=nat, n=n, sym_t=False, nan=False), 1200))
        obs.append((ob_criterion, dict(name=f"C14|{hor}|criterion|n={n}", fn=hor, n=n, sym_t=False, nan=False), 1200))
        obs.append((ob_criterion, dict(name=f"C14|{mvk}|criterion+nan|n={n}", fn=mvk, n=n, sym_t=False, nan=True), 1200))
    for n in ((3, 4) if not th else (3, 4, 5)):
        obs.append((ob_criterion, dict(name=f"C14|{nat}|criterion|symbolic timings|n={n}", fn=nat, n=n, sym_t=True, nan=False), 1200))
        obs.append((ob_criterion, dict(name=f"C14|{mvk}|criterion+nan|symbolic timings|n={n}", fn=mvk, n=n, sym_t=True, nan=True), 1200))
    for n in ((4, 5) if not th else (4, 5, 6, 7)):
        for fn in (nat, hor):
            obs.append((ob_reversal, dict(name=f"C14|{fn}|reversal|n={n}", fn=fn, n=n), 1200))
            obs.append((ob_affine, dict(name=f"C14|{fn}|affine a=3/2,c=2|n={n}", fn=fn, n=n, a=sx.Fraction(3, 2), c=2), 1200))
    for n in ((3, 4, 5) if not th else (3, 4, 5, 6)):
        for fn in ("_retarded_local_clustering", "_advanced_local_clustering"):
            obs.append((ob_clustering, dict(name=f"C14|{fn}|triangles|n={n}", fn=fn, n=n), 1200))
    triples = [(0, 1, 3), (0, 2, 3), (0, 3, 6), (0, 1, 4), (0, 3, 4), (0, 2, 5)]
    if th:
        triples = [(0, a, a + b) for a in range(1, 7) for b in range(1, 7) if not (a == b)]
    for ts in triples:
        for fn in (nat, mvk):
            obs.append((ob_fp_consistency, dict(name=f"C14|{fn}|ieee-consistency|t={ts}", fn=fn, ts=ts, bits=6), 1500))
    from . import C14_wrappers
    obs.extend(C14_wrappers.obligations(tier))
    return obs


# ---------------------------------------------------------------------------------- replay
def ref_visibility(x, t, horizontal):
    """rational-arithmetic criterion; x entries may be nan"""
    from fractions import Fraction
    n = len(x)
    isn = [v != v for v in x]
    X = [None if isn[i] else Fraction(x[i]) for i in range(n)]
    T = [Fraction(v) for v in t]
    A = [[0] * n for _ in range(n)]
    for i in range(n):
        for j in range(i + 1, n):
            if any(isn[k] for k in range(i, j + 1)):
                continue
            if horizontal:
                ok = all(X[k] < X[i] and X[k] < X[j] for k in range(i + 1, j))
            else:
                ok = all((X[k] - X[i]) * (T[j] - T[i]) < (X[j] - X[i]) * (T[k] - T[i]) for k in range(i + 1, j))
            if ok:
                A[i][j] = A[j][i] = 1
    return A


def replay(w):
    import numpy as np
    from pyunicorn.timeseries import VisibilityGraph
    kind = w["kind"]
    if kind in ("criterion", "reversal", "affine"):
        fn = w["fn"]
        x = [float(v) for v in core.to_float(w["x"])]
        t = [float(v) for v in core.to_float(w["t"])]
        hor = fn.endswith("horizontal")
        mvs = any(v != v for v in x) or fn == "_visibility_relations_missingvalues"
        vg = VisibilityGraph(np.array(x), timings=np.array(t), missing_values=mvs, horizontal=hor, silence_level=3)
        A = np.asarray(vg.adjacency).tolist()
        if kind == "criterion":
            ref = ref_visibility(x, t, hor)
            return A != ref, f"VisibilityGraph(x={x}, t={t}, missing_values={mvs}, horizontal={hor}).adjacency={A} criterion={ref}"
        if kind == "reversal":
            vg2 = VisibilityGraph(np.array(x[::-1]), timings=-np.array(t[::-1]), missing_values=mvs, horizontal=hor, silence_level=3)
            B = np.asarray(vg2.adjacency)[::-1, ::-1].tolist()
            return A != B, f"x={x}: A={A} mirrored-reversed={B}"
        a, b, c, d = (float(core.to_float(w[k])) for k in "abcd")
        vg2 = VisibilityGraph(a * np.array(x) + b, timings=c * np.array(t) + d, missing_values=mvs, horizontal=hor, silence_level=3)
        B = np.asarray(vg2.adjacency).tolist()
        return A != B, f"x={x}: A={A}; after affine map {B}"
    if kind == "clustering":
        from pyunicorn.timeseries._ext import numerics as TSN
        A = np.array(w["A"], dtype="int8")
        n = A.shape[0]
        fn = w["fn"]
        past = "retarded" in fn
        deg = np.array([A[i, :i].sum() if past else A[i, i + 1:].sum() for i in range(n)], dtype=float)
        norm = deg * (deg - 1) / 2.
        out = np.zeros(n)
        getattr(TSN, fn)(n, A, norm, out)
        ref = []
        for i in range(n):
            rng = list(range(i)) if past else list(range(i + 1, n))
            tri = sum(1 for p in range(len(rng)) for q in range(p + 1, len(rng))
                      if A[i, rng[p]] and A[i, rng[q]] and A[rng[p], rng[q]])
            ref.append(tri / norm[i] if norm[i] else 0.0)
        return (not np.allclose(out, ref)), f"{fn} on {A.tolist()}: {out.tolist()} definition {ref}"
    from . import C14_wrappers
    return C14_wrappers.replay(w)
