"""C11 (Python level): cross / internal measures of InteractingNetworks executed by Engine P."""
import itertools

import numpy as np
import z3

from .. import core, kern, pe, pnet, sx
from ..core import HELD, INCONCLUSIVE, VIOLATED, Q, result
from ..pe import SV, Explorer, SymNd
from . import gk

PROP = "C11"


def kernel_patches():
    K = pnet.kernel_shim
    return {"pyunicorn.core.interacting_networks": {
        "_cross_transitivity": K("core", "_cross_transitivity", ["int8", "int32", "int32"]),
        "_cross_local_clustering": K("core", "_cross_local_clustering", ["int8", "float64", "int32", "int32", "float64"]),
        "_nsi_cross_transitivity": K("core", "_nsi_cross_transitivity", ["int8", "int32", "int32", "float64"]),
        "_nsi_cross_local_clustering": K("core", "_nsi_cross_local_clustering", ["int8", "float64", "int32", "int32", "float64"]),
    }}


def mods():
    from pyunicorn.core import interacting_networks as im, network as nm
    return [im, nm]


def fv(x):
    return pe.flat_values(x)


def safe(f):
    """NumPy yields nan/inf where plain Python numbers raise ZeroDivisionError (all pairs unreachable ...)"""
    try:
        return f()
    except ZeroDivisionError:
        return SV(sx.NF(True, 0))


def neq_list(a, b):
    fa, fb = fv(a), fv(b)
    if len(fa) != len(fb):
        return [True]
    out = []
    for x, y in zip(fa, fb):
        d = neq(x, y)
        if d is not False:
            out.append(d)
    return out


def neq(a, b):
    from .C02 import neq as _n
    return _n(a, b)


# ------------------------------------------------------------------------------------------ bits mode
def ob_block_measures(name, n, pairs):
    """degree / density / clustering type cross measures == definitions on the adjacency sub-blocks (adjacency bits)"""
    from pyunicorn.core.interacting_networks import InteractingNetworks
    funcs = ["src/pyunicorn/core/interacting_networks.py InteractingNetworks.{cross_degree,cross_indegree,cross_outdegree,"
             "internal_degree,number_cross_links,number_internal_links,cross_link_density,internal_link_density,"
             "cross_degree_density,total_cross_degree,cross_adjacency(_sparse),internal_adjacency,cross_local_clustering(_sparse),"
             "cross_transitivity(_sparse),cross_global_clustering(_sparse),nsi_cross_degree,nsi_internal_degree,nsi_cross_mean_degree,"
             "nsi_cross_edge_density}"]
    A, present = pnet.bits_adjacency(n)
    w = pe.sym(n, "w")
    hyps = [x.v > 0 for x in w]
    bads = []

    def harness(ex):
        out = []
        with pe.patched(mods(), kernel_patches()):
            net = pnet.make_network(InteractingNetworks, A, w, present, False)
            for (g1, g2) in pairs:
                blk = np.asarray(A)[np.ix_(g1, g2)]
                ib = np.asarray(A)[np.ix_(g1, g1)]
                n1, n2 = len(g1), len(g2)
                rowsum = [sx.total(pe._num(x) for x in blk[i]) for i in range(n1)]
                tot = sx.total(rowsum)
                lab = f"{g1}|{g2} ::"
                out.append((lab + " cross_adjacency", neq_list(net.cross_adjacency(g1, g2), blk)))
                out.append((lab + " cross_adjacency_sparse", neq_list(net.cross_adjacency_sparse(g1, g2), blk)))
                out.append((lab + " internal_adjacency", neq_list(net.internal_adjacency(g1), ib)))
                out.append((lab + " cross_degree", neq_list(net.cross_degree(g1, g2), rowsum)))
                out.append((lab + " cross_outdegree", neq_list(net.cross_outdegree(g1, g2), rowsum)))
                out.append((lab + " cross_indegree", neq_list(net.cross_indegree(g1, g2), rowsum)))
                out.append((lab + " internal_degree", neq_list(net.internal_degree(g1),
                                                              [sx.total(pe._num(x) for x in ib[i]) for i in range(n1)])))
                out.append((lab + " number_cross_links", neq_list(net.number_cross_links(g1, g2), [tot])))
                out.append((lab + " cross_link_density", neq_list(net.cross_link_density(g1, g2), [sx.div(tot, n1 * n2)])))
                out.append((lab + " cross_degree_density", neq_list(net.cross_degree_density(g1, g2), [sx.div(r, n2) for r in rowsum])))
                out.append((lab + " total_cross_degree", neq_list(net.total_cross_degree(g1, g2), [sx.div(tot, n1)])))
                itot = sx.total(pe._num(x) for x in ib.ravel())
                out.append((lab + " number_internal_links", neq_list(net.number_internal_links(g1), [sx.div(itot, 2)])))
                if n1 > 1:
                    out.append((lab + " internal_link_density", neq_list(net.internal_link_density(g1), [sx.div(itot, n1 * (n1 - 1))])))
                # compiled vs sparse twins; symmetric argument order
                out.append((lab + " cross_local_clustering==sparse", neq_list(net.cross_local_clustering(g1, g2),
                                                                              net.cross_local_clustering_sparse(list(g1), list(g2)))))
                out.append((lab + " cross_transitivity==sparse", neq_list(net.cross_transitivity(g1, g2),
                                                                          net.cross_transitivity_sparse(list(g1), list(g2)))))
                out.append((lab + " cross_global_clustering==sparse", neq_list(net.cross_global_clustering(g1, g2),
                                                                               net.cross_global_clustering_sparse(list(g1), list(g2)))))
                out.append((lab + " number_cross_links symmetric", neq_list(net.number_cross_links(g1, g2), net.number_cross_links(g2, g1))))
                out.append((lab + " cross_link_density symmetric", neq_list(net.cross_link_density(g1, g2), net.cross_link_density(g2, g1))))
                # n.s.i. degrees
                wv = [x.v for x in w]
                nsik = [sx.total(sx.mul(sx.add(pe._num(np.asarray(A)[v, q]), 1 if v == q else 0), wv[q]) for q in g2) for v in g1]
                out.append((lab + " nsi_cross_degree", neq_list(net.nsi_cross_degree(g1, g2), nsik)))
                W1 = sx.total(wv[v] for v in g1)
                W2 = sx.total(wv[q] for q in g2)
                mean = sx.div(sx.total(sx.mul(k, wv[v]) for k, v in zip(nsik, g1)), W1)
                out.append((lab + " nsi_cross_mean_degree", neq_list(net.nsi_cross_mean_degree(g1, g2), [mean])))
                out.append((lab + " nsi_cross_edge_density", neq_list(net.nsi_cross_edge_density(g1, g2), [sx.div(mean, W2)])))
                out.append((lab + " nsi_cross_edge_density symmetric", neq_list(net.nsi_cross_edge_density(g1, g2),
                                                                                net.nsi_cross_edge_density(g2, g1))))
        return out
    ex = Explorer(hyps, max_paths=512)
    try:
        paths = ex.run(harness)
    except pe.Unsupported as e:
        return result(name, INCONCLUSIVE, reason=f"unsupported: {e}", functions=funcs)
    finally:
        from pyunicorn.core.network import Network
        pe.clear_caches(Network)
    nq = 0
    found = {}
    unknown = []
    for p in paths:
        for lab, bl in p.result:
            groups, meas = lab.split(" :: ")
            sig = f"C11|InteractingNetworks.{meas}|sub-block-definition"
            if sig in found:
                continue
            for b in bl:
                nq += 1
                v, m = Q.check(hyps + p.cond() + [b], 30, tag=f"{name}|{lab}")
                if v == "sat":
                    Am = [[int(sx.model_value(m, pe._num(np.asarray(A)[i, j]))) for j in range(n)] for i in range(n)]
                    found[sig] = {"kind": "py:block", "A": Am, "w": [sx.model_value(m, x.v) for x in w], "measure": meas,
                                  "g1": groups.split("|")[0], "g2": groups.split("|")[1]}
                    break
                if v != "unsat":
                    unknown.append(lab)
    res = [result(f"{name}|{sig.split('|')[1]}", VIOLATED, functions=funcs, twin="sat", bound=f"bits n={n}", signature=sig, witness=wit)
           for sig, wit in found.items()]
    if unknown:
        res.append(result(name, INCONCLUSIVE, reason=f"unknown at {unknown[:3]}", functions=funcs))
        return res
    if ex.truncated:
        res.append(result(name, INCONCLUSIVE, reason="path cap", functions=funcs))
        return res
    res.append(result(name, HELD, functions=funcs, twin="sat",
                      bound=f"all undirected graphs n={n} (adjacency bits), weights>0, {len(pairs)} ordered pairs of disjoint node lists",
                      detail=f"{ex.paths} paths, {nq} queries" + (f"; except {sorted(found)}" if found else "")))
    return res


# ------------------------------------------------------------------------------------------ topologies mode (paths)
PATH_MEASURES = ["cross_closeness", "cross_average_path_length", "local_efficiency", "average_cross_closeness",
                 "internal_closeness", "internal_average_path_length", "nsi_cross_closeness_centrality",
                 "nsi_cross_average_path_length", "cross_path_lengths"]


def ob_path_measures(name, n, graphs, weighted):
    """path based cross measures per concrete topology: (i) the value for a node of group 1 does not depend on the
    other members / order of group 1 (sub-block locality), (ii) with all cross pairs connected the values equal the
    definition on the path-length sub-block, (iii) symmetric measures agree for both argument orders"""
    from pyunicorn.core.interacting_networks import InteractingNetworks
    funcs = ["src/pyunicorn/core/interacting_networks.py InteractingNetworks.{cross_closeness,cross_average_path_length,"
             "local_efficiency,average_cross_closeness,internal_closeness,internal_average_path_length,"
             "nsi_cross_closeness_centrality,nsi_cross_average_path_length,_calculate_general_closeness,"
             "_calculate_general_average_path_length}"]
    w = pe.sym(n, "w")
    hyps = [x.v > 0 for x in w]
    wv = [x.v for x in w]
    nq = 0
    found = {}
    unknown = []
    for G in graphs:
        A, present = pnet.concrete_adjacency(G)
        if weighted and not present:
            continue
        la = None
        kw = {}
        if weighted:
            Wm = np.zeros((n, n), dtype=object)
            for (i, j) in present:
                Wm[i, j] = Wm[j, i] = SV(z3.Real(f"la_{i}_{j}"))
                hyps.append(Wm[i, j].v > 0)
            la = {"la": SymNd(Wm)}
            kw = {"link_attribute": "la"}
        pairs = gk.disjoint_pairs(n)

        def harness(ex):
            out = []
            with pe.patched(mods(), kernel_patches()):
                net = pnet.make_network(InteractingNetworks, A, w, present, False, la)
                D = np.asarray(net.path_lengths(**kw), dtype=object)
                for (g1, g2) in pairs:
                    lab = f"{g1}|{g2} ::"
                    blk = D[np.ix_(g1, g2)]
                    finite = all(not isinstance(pe._num(x), pe._Inf) for x in blk.ravel())
                    cc = net.cross_closeness(g1, g2, **kw)
                    # (i) locality in group 1
                    for idx, v in enumerate(g1):
                        single = net.cross_closeness([v], g2, **kw)
                        out.append((lab + " cross_closeness row-locality", neq_list([cc[idx]], [single[0]])))
                    rev = net.cross_closeness(list(reversed(g1)), list(reversed(g2)), **kw)
                    out.append((lab + " cross_closeness list order", neq_list(list(cc), list(reversed(list(rev))))))
                    le = net.local_efficiency(g1, g2, **kw)
                    for idx, v in enumerate(g1):
                        out.append((lab + " local_efficiency row-locality", neq_list([le[idx]], [net.local_efficiency([v], g2, **kw)[0]])))
                    apl = safe(lambda: net.cross_average_path_length(g1, g2, **kw))
                    out.append((lab + " cross_average_path_length symmetric", neq_list([apl], [safe(lambda: net.cross_average_path_length(g2, g1, **kw))])))
                    out.append((lab + " average_cross_closeness", neq_list([net.average_cross_closeness(g1, g2, **kw)],
                                                                           [sx.div(sx.total(pe._num(x) for x in cc), len(g1))])))
                    if finite:
                        M = len(g2)
                        rows = [sx.total(pe._num(x) for x in blk[i]) for i in range(len(g1))]
                        exp_cc = [sx.div(M, r) if not (not sx.is_sym(r) and r == 0) else 0 for r in rows]
                        out.append((lab + " cross_closeness definition", neq_list(list(cc), exp_cc)))
                        out.append((lab + " cross_average_path_length definition",
                                    neq_list([apl], [sx.div(sx.total(rows), len(g1) * M)])))
                    if not weighted:
                        ncc = net.nsi_cross_closeness_centrality(g1, g2)
                        for idx, v in enumerate(g1):
                            out.append((lab + " nsi_cross_closeness_centrality row-locality",
                                        neq_list([ncc[idx]], [net.nsi_cross_closeness_centrality([v], g2)[0]])))
                        out.append((lab + " nsi_cross_average_path_length symmetric",
                                    neq_list([safe(lambda: net.nsi_cross_average_path_length(g1, g2))], [safe(lambda: net.nsi_cross_average_path_length(g2, g1))])))
                for size in range(1, n + 1):
                    for g in itertools.combinations(range(n), size):
                        g = list(g)
                        ic = net.internal_closeness(g, **kw)
                        out.append((f"{g} :: internal_closeness list order",
                                    neq_list(list(ic), list(reversed(list(net.internal_closeness(list(reversed(g)), **kw)))))))
            return out
        ex = Explorer(hyps, max_paths=64)
        try:
            paths = ex.run(harness)
        except pe.Unsupported as e:
            return result(name, INCONCLUSIVE, reason=f"unsupported: {e}", functions=funcs)
        finally:
            from pyunicorn.core.network import Network
            pe.clear_caches(Network)
        for p in paths:
            for lab, bl in p.result:
                groups, meas = lab.split(" :: ")
                sig = f"C11|InteractingNetworks.{meas.replace(' ', '|')}"
                if sig in found:
                    continue
                for b in bl:
                    if b is True:
                        v, m = "sat", None
                    else:
                        nq += 1
                        v, m = Q.check(hyps + p.cond() + [b], 30, tag=f"{name}|{lab}")
                    if v == "sat":
                        wit = {"kind": "py:path", "A": G, "measure": meas, "groups": groups, "weighted": weighted,
                               "w": [sx.model_value(m, x) for x in wv] if m is not None else [1.0 + 0.5 * i for i in range(n)]}
                        if weighted:
                            wit["W"] = [[(sx.model_value(m, pe._num(la["la"][i, j])) if m is not None else float(G[i][j]))
                                         for j in range(n)] for i in range(n)]
                        found[sig] = (wit, f"topology {G}")
                        break
                    if v != "unsat":
                        unknown.append(lab)
    res = [result(f"{name}|{sig.split('.', 1)[1]}", VIOLATED, functions=funcs, twin="sat", bound=b_, signature=sig, witness=wit)
           for sig, (wit, b_) in found.items()]
    if unknown:
        res.append(result(name, INCONCLUSIVE, reason=f"unknown at {unknown[:3]}", functions=funcs))
        return res
    res.append(result(name, HELD, functions=funcs, twin="sat",
                      bound=f"{len(graphs)} labelled topologies n={n}, all ordered disjoint list pairs (also non-covering), "
                            f"{'symbolic link weights>0' if weighted else 'hop distances'}, node weights>0",
                      detail=f"{nq} non-trivial queries" + (f"; except {sorted(found)}" if found else "")))
    return res


def prepare(tier):
    return {"validated": 0, "validation": []}


# ------------------------------------------------------------------------------------------ whole-network limit
def _lc_def(net, n, w):
    """local clustering by definition (igraph's transitivity_local_undirected is not executable symbolically): triangles through i over
    pairs of neighbours, 0 for degree < 2 (the convention Network.local_clustering applies to igraph's nan)"""
    A = np.asarray(net.sp_A.d, dtype=object)
    out = []
    for i in range(n):
        k = sx.total(pe._num(A[i, j]) for j in range(n))
        tri = sx.total(sx.mul(sx.mul(pe._num(A[i, j]), pe._num(A[i, l])), pe._num(A[j, l])) for j in range(n) for l in range(j + 1, n))
        cases = 0
        for kv in range(2, n):
            cases = sx.ite(sx.eq(k, kv), sx.div(tri, kv * (kv - 1) // 2), cases)
        out.append(cases)
    return out


def _trans_def(net, n, w):
    A = np.asarray(net.sp_A.d, dtype=object)
    tri = sx.total(sx.mul(sx.mul(pe._num(A[i, j]), pe._num(A[i, l])), pe._num(A[j, l])) for i in range(n) for j in range(n) for l in range(j + 1, n))
    trip = sx.total(sx.mul(pe._num(A[i, j]), pe._num(A[i, l])) for i in range(n) for j in range(n) for l in range(j + 1, n))
    return sx.NF(sx.eq(trip, 0), sx.div(tri, sx.ite(sx.eq(trip, 0), 1, trip)))


LIMIT_BITS = [  # (interacting-network measure, internal?, single-network expression)
    ("cross_degree", False, lambda net, n, w: net.degree()),
    ("cross_local_clustering", False, _lc_def),
    ("cross_local_clustering_sparse", False, _lc_def),
    ("cross_transitivity", False, _trans_def),
    ("cross_transitivity_sparse", False, _trans_def),
    ("cross_global_clustering", False, lambda net, n, w: sx.div(sx.total(_lc_def(net, n, w)), n)),
    ("cross_global_clustering_sparse", False, lambda net, n, w: sx.div(sx.total(_lc_def(net, n, w)), n)),
    ("number_cross_links", False, lambda net, n, w: 2 * net.n_links),
    ("nsi_cross_degree", False, lambda net, n, w: net.nsi_degree()),
    ("nsi_cross_local_clustering", False, lambda net, n, w: net.nsi_local_clustering()),
    ("nsi_cross_transitivity", False, lambda net, n, w: net.nsi_transitivity()),
    ("nsi_cross_global_clustering", False, lambda net, n, w: net.nsi_global_clustering()),
    ("internal_degree", True, lambda net, n, w: net.degree()),
    ("nsi_internal_degree", True, lambda net, n, w: net.nsi_degree()),
    ("nsi_internal_local_clustering", True, lambda net, n, w: net.nsi_local_clustering()),
    ("internal_global_clustering", True, lambda net, n, w: sx.div(sx.total(_lc_def(net, n, w)), n)),
    ("number_internal_links", True, lambda net, n, w: net.n_links),
]
LIMIT_PATHS = [
    ("nsi_cross_closeness_centrality", False, "nsi_closeness"), ("nsi_cross_average_path_length", False, "nsi_average_path_length"),
    ("internal_closeness", True, "closeness"), ("internal_average_path_length", True, "average_path_length"),
    ("nsi_internal_closeness_centrality", True, "nsi_closeness"),
]


EXPECTED_UNSUP = {"internal_global_clustering", "internal_closeness", "internal_average_path_length"}     # igraph subgraph based
NSI_CLUST = ("nsi_cross_local_clustering", "nsi_cross_transitivity", "nsi_cross_global_clustering", "nsi_internal_local_clustering")


def ob_whole_limit(name, n, graphs=None, concrete_w=False, only=None):
    """taking both groups to be the whole node set reproduces the single-network measure (measures whose definition reduces to it;
    cross_closeness, cross_average_path_length, cross_betweenness and the link densities keep self pairs / ordered pairs by
    convention and are not demanded).  bits mode for the degree / clustering type, concrete connected topologies for path measures."""
    from pyunicorn.core.interacting_networks import InteractingNetworks
    funcs = ["src/pyunicorn/core/interacting_networks.py InteractingNetworks.{" + ",".join(m for m, _, _ in (LIMIT_BITS if graphs is None else LIMIT_PATHS)) + "}",
             "src/pyunicorn/core/network.py Network.<single-network counterparts>"]
    if concrete_w:
        from fractions import Fraction
        vals = [Fraction(1), Fraction(2), Fraction(1, 2), Fraction(3), Fraction(3, 2), Fraction(5, 4)]
        w = pe.SymNd(np.array([pe.SV(vals[i % len(vals)]) for i in range(n)], dtype=object))
        hyps = []
    else:
        w = pe.sym(n, "w")
        hyps = [x.v > 0 for x in w]
    allv = list(range(n))
    jobs = [None] if graphs is None else graphs
    table = [t for t in (LIMIT_BITS if (graphs is None or only) else LIMIT_PATHS) if only is None or t[0] in only]

    def harness_for(G):
        def harness(ex):
            out = []
            with pe.patched(mods(), kernel_patches()):
                if G is None:
                    A, present = pnet.bits_adjacency(n)
                else:
                    A, present = pnet.concrete_adjacency(G)
                net = pnet.make_network(InteractingNetworks, A, w, present, False)
                for meas, internal, single in table:
                    try:
                        a = getattr(net, meas)(allv) if internal else getattr(net, meas)(allv, allv)
                        b = single(net, n, w) if callable(single) else getattr(net, single)()
                    except (pe.Unsupported, NotImplementedError, AttributeError) as e:
                        out.append((meas, ["unsupported: " + str(e)[:80]], None))
                        continue
                    bl = neq_list(a, b)
                    if meas.startswith("cross_transitivity"):
                        # without any connected triple both sides are 0/0 (conventions differ: 0 vs nan); demanded only otherwise
                        Ad = np.asarray(A, dtype=object)
                        trip = sx.total(sx.mul(pe._num(Ad[i, j]), pe._num(Ad[i, l])) for i in range(n) for j in range(n) for l in range(j + 1, n))
                        bl = [sx.and_(sx.gt(trip, 0), c) for c in bl]
                        bl = [c for c in bl if c is not False]
                    out.append((meas, bl, A))
            return out
        return harness
    res = []
    found = {}
    nq = 0
    npaths = 0
    unknown = []
    unsup = set()
    for G in jobs:
        ex = Explorer(hyps, max_paths=512)
        try:
            paths = ex.run(harness_for(G))
        except pe.Unsupported as e:
            return result(name, INCONCLUSIVE, reason=f"unsupported: {e}", functions=funcs)
        finally:
            from pyunicorn.core.network import Network
            pe.clear_caches(Network)
        npaths += len(paths)
        for p in paths:
            for meas, bl, A in p.result:
                sig = f"C11|InteractingNetworks.{meas}|whole-network-limit"
                if sig in found:
                    continue
                for b in bl:
                    if isinstance(b, str):
                        unsup.add(meas)
                        continue
                    nq += 1
                    v, m = Q.check(hyps + p.cond() + [b], 30, tag=f"{name}|{meas}")
                    if v == "sat":
                        Am = [[int(sx.model_value(m, pe._num(np.asarray(A)[i, j]))) for j in range(n)] for i in range(n)]
                        found[sig] = {"kind": "py:limit", "A": Am, "w": [sx.model_value(m, x.v) if sx.is_sym(x.v) else x.v for x in w], "measure": meas}
                        break
                    if v != "unsat":
                        unknown.append(meas)
    res = [result(f"{name}|{sig.split('|')[1]}", VIOLATED, functions=funcs, twin="sat", bound=f"n={n}", signature=sig, witness=wit)
           for sig, wit in found.items()]
    if unknown:
        res.append(result(name, INCONCLUSIVE, reason=f"unknown at {sorted(set(unknown))[:4]}", functions=funcs))
        return res
    if unsup - EXPECTED_UNSUP:
        # a measure that stopped being executable must not pass silently
        res.append(result(name, INCONCLUSIVE, reason=f"not executable by Engine P: {sorted(unsup - EXPECTED_UNSUP)}", functions=funcs))
        return res
    res.append(result(name, HELD, functions=funcs, twin="sat",
                      bound=(f"all undirected graphs n={n} (adjacency bits), weights>0" if graphs is None else f"{len(graphs)} topologies n={n}, weights>0"),
                      detail=f"{npaths} paths, {nq} queries" + (f"; not executable: {sorted(unsup)}" if unsup else "") + (f"; except {sorted(found)}" if found else "")))
    return res


def connected_graphs(n):
    out = []
    for G in gk.all_graphs(n):
        reach, todo = {0}, [0]
        while todo:
            v = todo.pop()
            for u in range(n):
                if G[v][u] and u not in reach:
                    reach.add(u)
                    todo.append(u)
        if len(reach) == n:
            out.append(G)
    return out



def obligations(tier):
    th = tier == "thorough"
    obs = []
    for n in (2, 3, 4):
        pairs = gk.disjoint_pairs(n)
        for ci in range(0, len(pairs), 10):
            obs.append((ob_block_measures, dict(name=f"C11|py block measures|bits n={n}|pairs#{ci // 10}", n=n, pairs=pairs[ci:ci + 10]), 1800))
    for n in ((3, 4) if not th else (3, 4, 5)):
        graphs = list(gk.all_graphs(n))
        if n == 5:
            import random
            graphs = random.Random(core.SEED).sample(graphs, 96)
        step = 8 if n <= 4 else 6
        for ci in range(0, len(graphs), step):
            obs.append((ob_path_measures, dict(name=f"C11|py path measures|n={n}|graphs#{ci // step}", n=n, graphs=graphs[ci:ci + step], weighted=False), 1800))
    for n in ((3,) if not th else (3, 4)):
        graphs = list(gk.all_graphs(n))
        step = 2 if n == 3 else 4
        for ci in range(0, len(graphs), step):
            obs.append((ob_path_measures, dict(name=f"C11|py weighted path measures|n={n}|graphs#{ci // step}", n=n, graphs=graphs[ci:ci + step], weighted=True), 1800))
    plain = [m for m, _, _ in LIMIT_BITS if m not in NSI_CLUST]
    for n in ((2, 3, 4) if not th else (2, 3, 4, 5)):
        obs.append((ob_whole_limit, dict(name=f"C11|whole-network limit|bits n={n}", n=n, only=plain), 2400))
    for n in ((3, 4) if not th else (3, 4, 5)):
        gs = list(gk.all_graphs(n))
        if n == 5:
            import random
            gs = random.Random(core.SEED + 5).sample(gs, 120)
        for ci in range(0, len(gs), 16):
            obs.append((ob_whole_limit, dict(name=f"C11|whole-network limit|nsi clustering|topologies n={n}#{ci // 16}, symbolic weights", n=n,
                                             graphs=gs[ci:ci + 16], only=list(NSI_CLUST)), 2400))
    for n in ((3, 4) if not th else (3, 4, 5)):
        cg = connected_graphs(n)
        if n == 5:
            import random
            cg = random.Random(core.SEED).sample(cg, 60)
        for ci in range(0, len(cg), 10):
            obs.append((ob_whole_limit, dict(name=f"C11|whole-network limit|paths n={n}|graphs#{ci // 10}", n=n, graphs=cg[ci:ci + 10]), 2400))
    return obs


# ------------------------------------------------------------------------------------------ replay
def replay(w):
    from pyunicorn.core import InteractingNetworks
    A = np.array(w["A"], dtype=int)
    n = len(A)
    wt = np.array(core.to_float(w["w"]), dtype=float)
    net = InteractingNetworks(adjacency=A, node_weights=wt, silence_level=3)
    kw = {}
    if w.get("W") is not None:
        net.set_link_attribute("la", np.array(core.to_float(w["W"]), dtype=float))
        kw = {"link_attribute": "la"}
    meas = w["measure"]
    import ast
    if w["kind"] == "py:limit":
        allv = list(range(n))
        internal = meas.startswith(("internal_", "nsi_internal", "number_internal"))
        a = getattr(net, meas)(allv) if internal else getattr(net, meas)(allv, allv)
        real = {"cross_local_clustering": "local_clustering", "cross_local_clustering_sparse": "local_clustering",
                "cross_transitivity": "transitivity", "cross_transitivity_sparse": "transitivity", "cross_global_clustering": "global_clustering",
                "cross_global_clustering_sparse": "global_clustering", "internal_global_clustering": "global_clustering"}
        single = {m: f for m, _, f in LIMIT_BITS}
        single.update({m: (lambda net_, n_, w_, s_=s_: getattr(net_, s_)()) for m, _, s_ in LIMIT_PATHS})
        single.update({m: (lambda net_, n_, w_, s_=s_: getattr(net_, s_)()) for m, s_ in real.items()})
        b = single[meas](net, n, wt)
        with np.errstate(all="ignore"):
            bad = not np.allclose(np.asarray(a, dtype=float), np.asarray(b, dtype=float), rtol=1e-9, equal_nan=True)
        return bad, f"{meas}(all, all) = {a} but the single-network measure gives {b} on A={A.tolist()} w={wt.tolist()}"
    if w["kind"] == "py:block":
        g1, g2 = ast.literal_eval(w["g1"]), ast.literal_eval(w["g2"])
        blk = A[np.ix_(g1, g2)]
        name = meas.split("==")[0].split(" ")[0]
        if "==sparse" in meas:
            a = getattr(net, name)(g1, g2)
            b = getattr(net, name + "_sparse")(list(g1), list(g2))
            return (not np.allclose(a, b)), f"{name}({g1},{g2}) compiled {a} sparse {b} on A={A.tolist()}"
        if "symmetric" in meas:
            a, b = getattr(net, name)(g1, g2), getattr(net, name)(g2, g1)
            return (not np.allclose(a, b, rtol=1e-9)), f"{name}({g1},{g2})={a} but ({g2},{g1})={b} on A={A.tolist()} w={wt.tolist()}"
        ref = {
            "cross_adjacency": lambda: blk, "cross_adjacency_sparse": lambda: blk, "internal_adjacency": lambda: A[np.ix_(g1, g1)],
            "cross_degree": lambda: blk.sum(axis=1), "cross_outdegree": lambda: blk.sum(axis=1), "cross_indegree": lambda: blk.sum(axis=1),
            "internal_degree": lambda: A[np.ix_(g1, g1)].sum(axis=1), "number_cross_links": lambda: blk.sum(),
            "cross_link_density": lambda: blk.sum() / (len(g1) * len(g2)), "cross_degree_density": lambda: blk.sum(axis=1) / len(g2),
            "total_cross_degree": lambda: blk.sum() / len(g1), "number_internal_links": lambda: A[np.ix_(g1, g1)].sum() / 2,
            "internal_link_density": lambda: A[np.ix_(g1, g1)].sum() / (len(g1) * (len(g1) - 1)),
            "nsi_cross_degree": lambda: ((A + np.eye(n))[np.ix_(g1, g2)] * wt[g2]).sum(axis=1),
            "nsi_cross_mean_degree": lambda: ((((A + np.eye(n))[np.ix_(g1, g2)] * wt[g2]).sum(axis=1)) * wt[g1]).sum() / wt[g1].sum(),
            "nsi_cross_edge_density": lambda: ((((A + np.eye(n))[np.ix_(g1, g2)] * wt[g2]).sum(axis=1)) * wt[g1]).sum() / wt[g1].sum() / wt[g2].sum(),
        }[name]()
        args = (g1,) if name.startswith("internal") or name == "number_internal_links" else (g1, g2)
        got = getattr(net, name)(*args)
        return (not np.allclose(got, ref, rtol=1e-9)), f"{name}{args} = {got}, definition on the sub-block {ref}; A={A.tolist()}"
    # path measures
    groups = w["groups"]
    if "|" in groups:
        g1, g2 = [ast.literal_eval(x) for x in groups.split("|")]
    else:
        g1, g2 = ast.literal_eval(groups), None
    name = meas.split(" ")[0]
    kind = meas.split(" ", 1)[1] if " " in meas else ""
    f = getattr(net, name)
    use_kw = {} if name.startswith("nsi_") else kw
    if kind == "row-locality":
        full = f(g1, g2, **use_kw)
        bad = False
        msg = ""
        for idx, v in enumerate(g1):
            s = f([v], g2, **use_kw)[0]
            if not np.isclose(full[idx], s, rtol=1e-9, equal_nan=True):
                bad = True
                msg = f"{name}({g1},{g2})[{idx}]={full[idx]} but {name}([{v}],{g2})[0]={s}"
        return bad, f"A={A.tolist()}: {msg}"
    if kind == "symmetric":
        a, b = f(g1, g2, **use_kw), f(g2, g1, **use_kw)
        return (not np.isclose(a, b, rtol=1e-9, equal_nan=True)), f"A={A.tolist()} w={wt.tolist()}: {name}({g1},{g2})={a}, ({g2},{g1})={b}"
    if kind == "list order":
        if g2 is None:
            a, b = f(g1, **use_kw), f(list(reversed(g1)), **use_kw)[::-1]
        else:
            a, b = f(g1, g2, **use_kw), f(list(reversed(g1)), list(reversed(g2)), **use_kw)[::-1]
        return (not np.allclose(a, b, rtol=1e-9, equal_nan=True)), f"A={A.tolist()}: {name} {a} vs reversed lists {b}"
    if kind == "definition":
        D = net.path_lengths(**kw)[np.ix_(g1, g2)]
        if name == "cross_closeness":
            ref = len(g2) / D.sum(axis=1)
        else:
            ref = D.mean()
        got = f(g1, g2, **use_kw)
        return (not np.allclose(got, ref, rtol=1e-9)), f"A={A.tolist()}: {name}({g1},{g2})={got}, definition {ref}"
    if name == "average_cross_closeness":
        got, ref = f(g1, g2, **use_kw), np.mean(net.cross_closeness(g1, g2, **use_kw))
        return (not np.isclose(got, ref)), f"average_cross_closeness {got} vs mean {ref}"
    return False, "unknown witness kind"
