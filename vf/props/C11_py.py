"""C11 (Python level): cross / internal measures of InteractingNetworks executed by Engine P."""
import itertools

import numpy as np
import z3

from .. import core, kern, pe, pnet, sx
from ..core import HELD, INCONCLUSIVE, VIOLATED, Q, result
from ..pe import SV, Explorer, SymNd
from . import gk

PROP = "C11"


def kernel_patches():
    K = pnet.kernel_shim
    return {"pyunicorn.core.interacting_networks": {
        "_cross_transitivity": K("core", "_cross_transitivity", ["int8", "int32", "int32"]),
        "_cross_local_clustering": K("core", "_cross_local_clustering", ["int8", "float64", "int32", "int32", "float64"]),
        "_nsi_cross_transitivity": K("core", "_nsi_cross_transitivity", ["int8", "int32", "int32", "float64"]),
        "_nsi_cross_local_clustering": K("core", "_nsi_cross_local_clustering", ["int8", "float64", "int32", "int32", "float64"]),
    }}


def mods():
    from pyunicorn.core import interacting_networks as im, network as nm
    return [im, nm]


def fv(x):
    return pe.flat_values(x)


def safe(f):
    """NumPy yields nan/inf where plain Python numbers raise ZeroDivisionError (all pairs unreachable ...)"""
    try:
        return f()
    except ZeroDivisionError:
        return SV(sx.NF(True, 0))


def neq_list(a, b):
    fa, fb = fv(a), fv(b)
    if len(fa) != len(fb):
        return [True]
    out = []
    for x, y in zip(fa, fb):
        d = neq(x, y)
        if d is not False:
            out.append(d)
    return out


def neq(a, b):
    from .C02 import neq as _n
    return _n(a, b)


# ------------------------------------------------------------------------------------------ bits mode
def ob_block_measures(name, n, pairs):
    """degree / density / clustering type cross measures == definitions on the adjacency sub-blocks (adjacency bits)"""
    from pyunicorn.core.interacting_networks import InteractingNetworks
    funcs = ["src/pyunicorn/core/interacting_networks.py InteractingNetworks.{cross_degree,cross_indegree,cross_outdegree,"
             "internal_degree,number_cross_links,number_internal_links,cross_link_density,internal_link_density,"
             "cross_degree_density,total_cross_degree,cross_adjacency(_sparse),internal_adjacency,cross_local_clustering(_sparse),"
             "cross_transitivity(_sparse),cross_global_clustering(_sparse),nsi_cross_degree,nsi_internal_degree,nsi_cross_mean_degree,"
             "nsi_cross_edge_density}"]
    A, present = pnet.bits_adjacency(n)
    w = pe.sym(n, "w")
    hyps = [x.v > 0 for x in w]
    bads = []

    def harness(ex):
        out = []
        with pe.patched(mods(), kernel_patches()):
            net = pnet.make_network(InteractingNetworks, A, w, present, False)
            for (g1, g2) in pairs:
                blk = np.asarray(A)[np.ix_(g1, g2)]
                ib = np.asarray(A)[np.ix_(g1, g1)]
                n1, n2 = len(g1), len(g2)
                rowsum = [sx.total(pe._num(x) for x in blk[i]) for i in range(n1)]
                tot = sx.total(rowsum)
                lab = f"{g1}|{g2} ::"
                out.append((lab + " cross_adjacency", neq_list(net.cross_adjacency(g1, g2), blk)))
                out.append((lab + " cross_adjacency_sparse", neq_list(net.cross_adjacency_sparse(g1, g2), blk)))
                out.append((lab + " internal_adjacency", neq_list(net.internal_adjacency(g1), ib)))
                out.append((lab + " cross_degree", neq_list(net.cross_degree(g1, g2), rowsum)))
                out.append((lab + " cross_outdegree", neq_list(net.cross_outdegree(g1, g2), rowsum)))
                out.append((lab + " cross_indegree", neq_list(net.cross_indegree(g1, g2), rowsum)))
                out.append((lab + " internal_degree", neq_list(net.internal_degree(g1),
                                                              [sx.total(pe._num(x) for x in ib[i]) for i in range(n1)])))
                out.append((lab + " number_cross_links", neq_list(net.number_cross_links(g1, g2), [tot])))
                out.append((lab + " cross_link_density", neq_list(net.cross_link_density(g1, g2), [sx.div(tot, n1 * n2)])))
                out.append((lab + " cross_degree_density", neq_list(net.cross_degree_density(g1, g2), [sx.div(r, n2) for r in rowsum])))
                out.append((lab + " total_cross_degree", neq_list(net.total_cross_degree(g1, g2), [sx.div(tot, n1)])))
                itot = sx.total(pe._num(x) for x in ib.ravel())
                out.append((lab + " number_internal_links", neq_list(net.number_internal_links(g1), [sx.div(itot, 2)])))
                if n1 > 1:
                    out.append((lab + " internal_link_density", neq_list(net.internal_link_density(g1), [sx.div(itot, n1 * (n1 - 1))])))
                # compiled vs sparse twins; symmetric argument order
                out.append((lab + " cross_local_clustering==sparse", neq_list(net.cross_local_clustering(g1, g2),
                                                                              net.cross_local_clustering_sparse(list(g1), list(g2)))))
                out.append((lab + " cross_transitivity==sparse", neq_list(net.cross_transitivity(g1, g2),
                                                                          net.cross_transitivity_sparse(list(g1), list(g2)))))
                out.append((lab + " cross_global_clustering==sparse", neq_list(net.cross_global_clustering(g1, g2),
                                                                               net.cross_global_clustering_sparse(list(g1), list(g2)))))
                out.append((lab + " number_cross_links symmetric", neq_list(net.number_cross_links(g1, g2), net.number_cross_links(g2, g1))))
                out.append((lab + " cross_link_density symmetric", neq_list(net.cross_link_density(g1, g2), net.cross_link_density(g2, g1))))
                # n.s.i. degrees
                wv = [x.v for x in w]
                nsik = [sx.total(sx.mul(sx.add(pe._num(np.asarray(A)[v, q]), 1 if v == q else 0), wv[q]) for q in g2) for v in g1]
                out.append((lab + " nsi_cross_degree", neq_list(net.nsi_cross_degree(g1, g2), nsik)))
                W1 = sx.total(wv[v] for v in g1)
                W2 = sx.total(wv[q] for q in g2)
                mean = sx.div(sx.total(sx.mul(k, wv[v]) for k, v in zip(nsik, g1)), W1)
                out.append((lab + " nsi_cross_mean_degree", neq_list(net.nsi_cross_mean_degree(g1, g2), [mean])))
                out.append((lab + " nsi_cross_edge_density", neq_list(net.nsi_cross_edge_density(g1, g2), [sx.div(mean, W2)])))
                out.append((lab + " nsi_cross_edge_density symmetric", neq_list(net.nsi_cross_edge_density(g1, g2),
                                                                                net.nsi_cross_edge_density(g2, g1))))
        return out
    ex = Explorer(hyps, max_paths=512)
    try:
        paths = ex.run(harness)
    except pe.Unsupported as e:
        return result(name, INCONCLUSIVE, reason=f"unsupported: {e}", functions=funcs)
    finally:
        from pyunicorn.core.network import Network
        pe.clear_caches(Network)
    nq = 0
    found = {}
    unknown = []
    for p in paths:
        for lab, bl in p.result:
            groups, meas = lab.split(" :: ")
            sig = f"C11|InteractingNetworks.{meas}|sub-block-definition"
            if sig in found:
                continue
            for b in bl:
                nq += 1
                v, m = Q.check(hyps + p.cond() + [b], 30, tag=f"{name}|{lab}")
                if v == "sat":
                    Am = [[int(sx.model_value(m, pe._num(np.asarray(A)[i, j]))) for j in range(n)] for i in range(n)]
                    found[sig] = {"kind": "py:block", "A": Am, "w": [sx.model_value(m, x.v) for x in w], "measure": meas,
                                  "g1": groups.split("|")[0], "g2": groups.split("|")[1]}
                    break
                if v != "unsat":
                    unknown.append(lab)
    res = [result(f"{name}|{sig.split('|')[1]}", VIOLATED, functions=funcs, twin="sat", bound=f"bits n={n}", signature=sig, witness=wit)
           for sig, wit in found.items()]
    if unknown:
        res.append(result(name, INCONCLUSIVE, reason=f"unknown at {unknown[:3]}", functions=funcs))
        return res
    if ex.truncated:
        res.append(result(name, INCONCLUSIVE, reason="path cap", functions=funcs))
        return res
    res.append(result(name, HELD, functions=funcs, twin="sat",
                      bound=f"all undirected graphs n={n} (adjacency bits), weights>0, {len(pairs)} ordered pairs of disjoint node lists",
                      detail=f"{ex.paths} paths, {nq} queries" + (f"; except {sorted(found)}" if found else "")))
    return res


# ------------------------------------------------------------------------------------------ topologies mode (paths)
PATH_MEASURES = ["cross_closeness", "cross_average_path_length", "local_efficiency", "average_cross_closeness",
                 "internal_closeness", "internal_average_path_length", "nsi_cross_closeness_centrality",
                 "nsi_cross_average_path_length", "cross_path_lengths"]


def ob_path_measures(name, n, graphs, weighted):
    """path based cross measures per concrete topology: (i) the value for a node of group 1 does not depend on the
    other members / order of group 1 (sub-block locality), (ii) with all cross pairs connected the values equal the
    definition on the path-length sub-block, (iii) symmetric measures agree for both argument orders"""
    from pyunicorn.core.interacting_networks import InteractingNetworks
    funcs = ["src/pyunicorn/core/interacting_networks.py InteractingNetworks.{cross_closeness,cross_average_path_length,"
             "local_efficiency,average_cross_closeness,internal_closeness,internal_average_path_length,"
             "nsi_cross_closeness_centrality,nsi_cross_average_path_length,_calculate_general_closeness,"
             "_calculate_general_average_path_length}"]
    w = pe.sym(n, "w")
    hyps = [x.v > 0 for x in w]
    wv = [x.v for x in w]
    nq = 0
    found = {}
    unknown = []
    for G in graphs:
        A, present = pnet.concrete_adjacency(G)
        if weighted and not present:
            continue
        la = None
        kw = {}
        if weighted:
            Wm = np.zeros((n, n), dtype=object)
            for (i, j) in present:
                Wm[i, j] = Wm[j, i] = SV(z3.Real(f"la_{i}_{j}"))
                hyps.append(Wm[i, j].v > 0)
            la = {"la": SymNd(Wm)}
            kw = {"link_attribute": "la"}
        pairs = gk.disjoint_pairs(n)

        def harness(ex):
            out = []
            with pe.patched(mods(), kernel_patches()):
                net = pnet.make_network(InteractingNetworks, A, w, present, False, la)
                D = np.asarray(net.path_lengths(**kw), dtype=object)
                for (g1, g2) in pairs:
                    lab = f"{g1}|{g2} ::"
                    blk = D[np.ix_(g1, g2)]
                    finite = all(not isinstance(pe._num(x), pe._Inf) for x in blk.ravel())
                    cc = net.cross_closeness(g1, g2, **kw)
                    # (i) locality in group 1
                    for idx, v in enumerate(g1):
                        single = net.cross_closeness([v], g2, **kw)
                        out.append((lab + " cross_closeness row-locality", neq_list([cc[idx]], [single[0]])))
                    rev = net.cross_closeness(list(reversed(g1)), list(reversed(g2)), **kw)
                    out.append((lab + " cross_closeness list order", neq_list(list(cc), list(reversed(list(rev))))))
                    le = net.local_efficiency(g1, g2, **kw)
                    for idx, v in enumerate(g1):
                        out.append((lab + " local_efficiency row-locality", neq_list([le[idx]], [net.local_efficiency([v], g2, **kw)[0]])))
                    apl = safe(lambda: net.cross_average_path_length(g1, g2, **kw))
                    out.append((lab + " cross_average_path_length symmetric", neq_list([apl], [safe(lambda: net.cross_average_path_length(g2, g1, **kw))])))
                    out.append((lab + " average_cross_closeness", neq_list([net.average_cross_closeness(g1, g2, **kw)],
                                                                           [sx.div(sx.total(pe._num(x) for x in cc), len(g1))])))
                    if finite:
                        M = len(g2)
                        rows = [sx.total(pe._num(x) for x in blk[i]) for i in range(len(g1))]
                        exp_cc = [sx.div(M, r) if not (not sx.is_sym(r) and r == 0) else 0 for r in rows]
                        out.append((lab + " cross_closeness definition", neq_list(list(cc), exp_cc)))
                        out.append((lab + " cross_average_path_length definition",
                                    neq_list([apl], [sx.div(sx.total(rows), len(g1) * M)])))
                    if not weighted:
                        ncc = net.nsi_cross_closeness_centrality(g1, g2)
                        for idx, v in enumerate(g1):
                            out.append((lab + " nsi_cross_closeness_centrality row-locality",
                                        neq_list([ncc[idx]], [net.nsi_cross_closeness_centrality([v], g2)[0]])))
                        out.append((lab + " nsi_cross_average_path_length symmetric",
                                    neq_list([safe(lambda: net.nsi_cross_average_path_length(g1, g2))], [safe(lambda: net.nsi_cross_average_path_length(g2, g1))])))
                for size in range(1, n + 1):
                    for g in itertools.combinations(range(n), size):
                        g = list(g)
                        ic = net.internal_closeness(g, **kw)
                        out.append((f"{g} :: internal_closeness list order",
                                    neq_list(list(ic), list(reversed(list(net.internal_closeness(list(reversed(g)), **kw)))))))
            return out
        ex = Explorer(hyps, max_paths=64)
        try:
            paths = ex.run(harness)
        except pe.Unsupported as e:
            return result(name, INCONCLUSIVE, reason=f"unsupported: {e}", functions=funcs)
        finally:
            from pyunicorn.core.network import Network
            pe.clear_caches(Network)
        for p in paths:
            for lab, bl in p.result:
                groups, meas = lab.split(" :: ")
                sig = f"C11|InteractingNetworks.{meas.replace(' ', '|')}"
                if sig in found:
                    continue
                for b in bl:
                    if b is True:
                        v, m = "sat", None
                    else:
                        nq += 1
                        v, m = Q.check(hyps + p.cond() + [b], 30, tag=f"{name}|{lab}")
                    if v == "sat":
                        wit = {"kind": "py:path", "A": G, "measure": meas, "groups": groups, "weighted": weighted,
                               "w": [sx.model_value(m, x) for x in wv] if m is not None else [1.0 + 0.5 * i for i in range(n)]}
                        if weighted:
                            wit["W"] = [[(sx.model_value(m, pe._num(la["la"][i, j])) if m is not None else float(G[i][j]))
                                         for j in range(n)] for i in range(n)]
                        found[sig] = (wit, f"topology {G}")
                        break
                    if v != "unsat":
                        unknown.append(lab)
    res = [result(f"{name}|{sig.split('.', 1)[1]}", VIOLATED, functions=funcs, twin="sat", bound=b_, signature=sig, witness=wit)
           for sig, (wit, b_) in found.items()]
    if unknown:
        res.append(result(name, INCONCLUSIVE, reason=f"unknown at {unknown[:3]}", functions=funcs))
        return res
    res.append(result(name, HELD, functions=funcs, twin="sat",
                      bound=f"{len(graphs)} labelled topologies n={n}, all ordered disjoint list pairs (also non-covering), "
                            f"{'symbolic link weights>0' if weighted else 'hop distances'}, node weights>0",
                      detail=f"{nq} non-trivial queries" + (f"; except {sorted(found)}" if found else "")))
    return res


def prepare(tier):
    return {"validated": 0, "validation": []}


def obligations(tier):
    th = tier == "thorough"
    obs = []
    for n in (2, 3, 4):
        pairs = gk.disjoint_pairs(n)
        for ci in range(0, len(pairs), 10):
            obs.append((ob_block_measures, dict(name=f"C11|py block measures|bits n={n}|pairs#{ci // 10}", n=n, pairs=pairs[ci:ci + 10]), 1800))
    for n in ((3, 4) if not th else (3, 4, 5)):
        graphs = list(gk.all_graphs(n))
        if n == 5:
            import random
            graphs = random.Random(core.SEED).sample(graphs, 96)
        step = 8 if n <= 4 else 6
        for ci in range(0, len(graphs), step):
            obs.append((ob_path_measures, dict(name=f"C11|py path measures|n={n}|graphs#{ci // step}", n=n, graphs=graphs[ci:ci + step], weighted=False), 1800))
    for n in ((3,) if not th else (3, 4)):
        graphs = list(gk.all_graphs(n))
        step = 2 if n == 3 else 4
        for ci in range(0, len(graphs), step):
            obs.append((ob_path_measures, dict(name=f"C11|py weighted path measures|n={n}|graphs#{ci // step}", n=n, graphs=graphs[ci:ci + step], weighted=True), 1800))
    return obs


# ------------------------------------------------------------------------------------------ replay
def replay(w):
    from pyunicorn.core import InteractingNetworks
    A = np.array(w["A"], dtype=int)
    n = len(A)
    wt = np.array(core.to_float(w["w"]), dtype=float)
    net = InteractingNetworks(adjacency=A, node_weights=wt, silence_level=3)
    kw = {}
    if w.get("W") is not None:
        net.set_link_attribute("la", np.array(core.to_float(w["W"]), dtype=float))
        kw = {"link_attribute": "la"}
    meas = w["measure"]
    import ast
    if w["kind"] == "py:block":
        g1, g2 = ast.literal_eval(w["g1"]), ast.literal_eval(w["g2"])
        blk = A[np.ix_(g1, g2)]
        name = meas.split("==")[0].split(" ")[0]
        if "==sparse" in meas:
            a = getattr(net, name)(g1, g2)
            b = getattr(net, name + "_sparse")(list(g1), list(g2))
            return (not np.allclose(a, b)), f"{name}({g1},{g2}) compiled {a} sparse {b} on A={A.tolist()}"
        if "symmetric" in meas:
            a, b = getattr(net, name)(g1, g2), getattr(net, name)(g2, g1)
            return (not np.allclose(a, b, rtol=1e-9)), f"{name}({g1},{g2})={a} but ({g2},{g1})={b} on A={A.tolist()} w={wt.tolist()}"
        ref = {
            "cross_adjacency": lambda: blk, "cross_adjacency_sparse": lambda: blk, "internal_adjacency": lambda: A[np.ix_(g1, g1)],
            "cross_degree": lambda: blk.sum(axis=1), "cross_outdegree": lambda: blk.sum(axis=1), "cross_indegree": lambda: blk.sum(axis=1),
            "internal_degree": lambda: A[np.ix_(g1, g1)].sum(axis=1), "number_cross_links": lambda: blk.sum(),
            "cross_link_density": lambda: blk.sum() / (len(g1) * len(g2)), "cross_degree_density": lambda: blk.sum(axis=1) / len(g2),
            "total_cross_degree": lambda: blk.sum() / len(g1), "number_internal_links": lambda: A[np.ix_(g1, g1)].sum() / 2,
            "internal_link_density": lambda: A[np.ix_(g1, g1)].sum() / (len(g1) * (len(g1) - 1)),
            "nsi_cross_degree": lambda: ((A + np.eye(n))[np.ix_(g1, g2)] * wt[g2]).sum(axis=1),
            "nsi_cross_mean_degree": lambda: ((((A + np.eye(n))[np.ix_(g1, g2)] * wt[g2]).sum(axis=1)) * wt[g1]).sum() / wt[g1].sum(),
            "nsi_cross_edge_density": lambda: ((((A + np.eye(n))[np.ix_(g1, g2)] * wt[g2]).sum(axis=1)) * wt[g1]).sum() / wt[g1].sum() / wt[g2].sum(),
        }[name]()
        args = (g1,) if name.startswith("internal") or name == "number_internal_links" else (g1, g2)
        got = getattr(net, name)(*args)
        return (not np.allclose(got, ref, rtol=1e-9)), f"{name}{args} = {got}, definition on the sub-block {ref}; A={A.tolist()}"
    # path measures
    groups = w["groups"]
    if "|" in groups:
        g1, g2 = [ast.literal_eval(x) for x in groups.split("|")]
    else:
        g1, g2 = ast.literal_eval(groups), None
    name = meas.split(" ")[0]
    kind = meas.split(" ", 1)[1] if " " in meas else ""
    f = getattr(net, name)
    use_kw = {} if name.startswith("nsi_") else kw
    if kind == "row-locality":
        full = f(g1, g2, **use_kw)
        bad = False
        msg = ""
        for idx, v in enumerate(g1):
            s = f([v], g2, **use_kw)[0]
            if not np.isclose(full[idx], s, rtol=1e-9, equal_nan=True):
                bad = True
                msg = f"{name}({g1},{g2})[{idx}]={full[idx]} but {name}([{v}],{g2})[0]={s}"
        return bad, f"A={A.tolist()}: {msg}"
    if kind == "symmetric":
        a, b = f(g1, g2, **use_kw), f(g2, g1, **use_kw)
        return (not np.isclose(a, b, rtol=1e-9, equal_nan=True)), f"A={A.tolist()} w={wt.tolist()}: {name}({g1},{g2})={a}, ({g2},{g1})={b}"
    if kind == "list order":
        if g2 is None:
            a, b = f(g1, **use_kw), f(list(reversed(g1)), **use_kw)[::-1]
        else:
            a, b = f(g1, g2, **use_kw), f(list(reversed(g1)), list(reversed(g2)), **use_kw)[::-1]
        return (not np.allclose(a, b, rtol=1e-9, equal_nan=True)), f"A={A.tolist()}: {name} {a} vs reversed lists {b}"
    if kind == "definition":
        D = net.path_lengths(**kw)[np.ix_(g1, g2)]
        if name == "cross_closeness":
            ref = len(g2) / D.sum(axis=1)
        else:
            ref = D.mean()
        got = f(g1, g2, **use_kw)
        return (not np.allclose(got, ref, rtol=1e-9)), f"A={A.tolist()}: {name}({g1},{g2})={got}, definition {ref}"
    if name == "average_cross_closeness":
        got, ref = f(g1, g2, **use_kw), np.mean(net.cross_closeness(g1, g2, **use_kw))
        return (not np.isclose(got, ref)), f"average_cross_closeness {got} vs mean {ref}"
    return False, "unknown witness kind"
