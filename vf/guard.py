"""guard-page replay for out-of-bounds findings: inputs are copied so that their last byte sits directly before an inaccessible page;
a read or write past the end then kills the (grand)child process with SIGSEGV instead of returning plausible numbers"""
import os
import subprocess
import sys
import textwrap

PRELUDE = '''
import ctypes, mmap, numpy as np
_libc = ctypes.CDLL(None, use_errno=True)
_keep = []
def guarded(a):
    a = np.ascontiguousarray(a)
    page = mmap.PAGESIZE
    npages = (a.nbytes + page - 1) // page + 1
    mm = mmap.mmap(-1, (npages + 1) * page)
    base = ctypes.addressof(ctypes.c_char.from_buffer(mm))
    last = base + npages * page
    if _libc.mprotect(ctypes.c_void_p(last), ctypes.c_size_t(page), 0) != 0:
        raise OSError("mprotect failed")
    off = npages * page - a.nbytes
    out = np.frombuffer(mm, dtype=a.dtype, count=a.size, offset=off).reshape(a.shape)
    out[...] = a
    _keep.append(mm)
    return out
'''


def run_guarded(body, timeout=120):
    """run `body` (python source using guarded()) in a fresh process of the scratch build; returns (signal or 0, output)"""
    code = PRELUDE + textwrap.dedent(body)
    env = dict(os.environ)
    bp = env.get("VERIF_BUILD_PATH")
    if bp:
        # the scratch build of the tree under test, not the editable install of /repo
        code = f"import sys; sys.path.insert(0, {bp!r})\n" + code + "\nimport pyunicorn; assert pyunicorn.__file__.startswith(%r), pyunicorn.__file__\n" % bp
    r = subprocess.run([sys.executable, "-c", code], stdout=subprocess.PIPE, stderr=subprocess.STDOUT, text=True, timeout=timeout, env=env)
    return (-r.returncode if r.returncode < 0 else 0), r.stdout[-1500:], r.returncode
