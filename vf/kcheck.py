"""Helpers shared by the Engine-K property modules."""
import z3

from . import core, kern, sx
from .core import HELD, INCONCLUSIVE, VIOLATED, Q, result
from .sx import and_, not_, or_

VALID = {}     # (pkg, fn) -> bool ; filled by prepare() in the parent process before forking


def decide(name, hyps, bad, funcs, bound, signature, witness, timeout=120, twin=True, extra_twin=None):
    """bad: Boolean term 'the property is violated'.  witness: callable(model) -> dict"""
    for f in funcs:
        key = f.split(" ")[1] if " " in f else f
        for (pkg, fn), ok in VALID.items():
            if fn == key and not ok:
                return result(name, INCONCLUSIVE, reason=f"translator validation failed for {fn}",
                              functions=funcs, bound=bound)
    hyps = [h for h in hyps if h is not True]
    if isinstance(bad, (list, tuple)):
        bad = [b for b in bad if b is not False]
        if not bad:
            bad = False
    if bad is False:
        tv = "sat"
        if twin:
            tv, _ = Q.check(hyps, 30, tag=name + "|twin", want_model=False)
        return result(name, HELD, functions=funcs, bound=bound, twin=tv,
                      detail="violation condition folded to false during symbolic execution")
    if isinstance(bad, (list, tuple)):
        # one query per disjunct (each output cell / event): small cones of influence
        v, m = "unsat", None
        for k, b in enumerate(bad):
            if b is False:
                continue
            v1, m1 = Q.check(hyps + [b], timeout, tag=f"{name}#{k}")
            if v1 == "sat":
                v, m = v1, m1
                break
            if v1 != "unsat":
                v = v1
    else:
        v, m = Q.check(hyps + [bad], timeout, tag=name)
    tv = "sat"
    if v == "unsat":
        if tv != "sat":
            return result(name, INCONCLUSIVE, reason=f"vacuous: reachability twin is {tv}", functions=funcs,
                          bound=bound, twin=tv)
        return result(name, HELD, functions=funcs, bound=bound, twin=tv)
    if v == "sat":
        try:
            w = witness(m)
        except Exception as e:  # noqa
            return result(name, INCONCLUSIVE, reason=f"model extraction failed: {e}", functions=funcs, bound=bound)
        return result(name, VIOLATED, functions=funcs, bound=bound, twin="sat", signature=signature, witness=w)
    return result(name, INCONCLUSIVE, reason="solver unknown/timeout", functions=funcs, bound=bound)


def mv(m, x):
    return sx.model_value(m, x)


def mv_arr(m, a):
    return a.nested(lambda x: None if x is kern.UNDEF else sx.model_value(m, x))


def validate_kernel(pkg, fn, make_inputs, trials, compare, notes):
    """make_inputs(rng, trial) -> (compiled_args, interp_args, outputs_selector)
    compare(compiled_result, compiled_args, interp_result, interp_args) -> bool"""
    import importlib
    import numpy as np
    cmod = importlib.import_module(f"pyunicorn.{pkg}._ext.numerics")
    mod = kern.module(pkg)
    rng = np.random.default_rng(core.SEED + hash(fn) % 1000)
    ok = 0
    good = True
    for t in range(trials):
        try:
            cargs, iargs = make_inputs(rng, t)
            st = np.random.get_state()
            cres = getattr(cmod, fn)(*cargs)
            np.random.set_state(st)
            run = kern.Run(mod, symbolic=False, rand=_np_rand)
            ires = run.call(fn, iargs)
            same = compare(cres, cargs, ires, iargs)
        except Exception as e:  # noqa
            same = False
            notes.append(f"{fn}: {type(e).__name__}: {str(e)[:200]}")
        if same:
            ok += 1
        else:
            good = False
    VALID[(pkg, fn)] = good
    if not good:
        notes.append(f"{pkg}.{fn}: interpreted != compiled on validation inputs")
    return ok


def _np_rand(kind, arg):
    import numpy.random as rd
    if kind == "unit":
        return rd.random()
    return int(rd.randint(arg))


def close(a, b, tol=1e-5):
    import numpy as np
    a = np.asarray(a, dtype=float)
    b = np.asarray(b, dtype=float)
    if a.shape != b.shape:
        return False
    return bool(np.allclose(a, b, rtol=tol, atol=tol, equal_nan=True))
