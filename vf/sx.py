"""Scalar layer shared by the engines: concrete-first arithmetic over Python numbers and z3 terms.

A value is a Python bool/int/float/Fraction (concrete), a z3 ArithRef/BoolRef (symbolic), or an
`NF` (IEEE-style float that may be NaN: pair of a Boolean "is NaN" and a real payload).
Every operation folds constants, so a computation whose control is concrete produces no terms for it.
"""
from fractions import Fraction
import math
import z3

_num = (int, float, Fraction)


class Undef:
    """value of an uninitialised variable / of a read that raised; absorbing for arithmetic"""

    def __repr__(self):
        return "UNDEF"


UNDEF = Undef()


class NF:
    """float value that may be NaN (domain R+NaN).  nan: bool|BoolRef, val: number|ArithRef"""
    __slots__ = ("nan", "val")

    def __init__(self, nan, val):
        self.nan = nan
        self.val = val

    def __repr__(self):
        return f"NF({self.nan},{self.val})"


ABSTRACT_FP = [False, 0]     # [enabled, counter]: float arithmetic results become fresh values (over-approximation)
RECIPROCALS = [False]      # rewrite x / (k / d) to x * d / k (valid for d != 0)
F32 = z3.FPSort(8, 24)
F64 = z3.FPSort(11, 53)
RNE = z3.RNE()


def is_fp(x):
    return isinstance(x, z3.FPRef)


def fp_sort_of(bits):
    return F32 if bits == 32 else F64


def fp_const(v, sort):
    """python number -> FP numeral of the given sort (correctly rounded)"""
    if isinstance(v, bool):
        v = int(v)
    if isinstance(v, Fraction):
        return z3.fpRealToFP(RNE, z3.RealVal(v), sort)
    if isinstance(v, float) and v != v:
        return z3.fpNaN(sort)
    return z3.FPVal(v, sort)


def fp_cast(x, sort):
    if is_fp(x):
        return x if x.sort() == sort else z3.fpFPToFP(RNE, x, sort)
    if isinstance(x, z3.ArithRef):
        return z3.fpRealToFP(RNE, z3.ToReal(x) if x.is_int() else x, sort)
    if isinstance(x, z3.BoolRef):
        return z3.If(x, z3.FPVal(1, sort), z3.FPVal(0, sort))
    return fp_const(x, sort)


def _fp_promote(a, b):
    """C usual arithmetic conversions among float / double / integers"""
    sa = a.sort() if is_fp(a) else None
    sb = b.sort() if is_fp(b) else None
    # a python float / Fraction stands for a C double literal or double variable
    if sa is None and isinstance(a, (float, Fraction)):
        sa = F64
    if sb is None and isinstance(b, (float, Fraction)):
        sb = F64
    cands = [x for x in (sa, sb) if x is not None]
    sort = F64 if any(x == F64 for x in cands) else F32
    return fp_cast(a, sort), fp_cast(b, sort)


def is_sym(x):
    return isinstance(x, (z3.ExprRef, NF))


def is_bool(x):
    return isinstance(x, bool) or isinstance(x, z3.BoolRef)


def lift(x):
    """python number -> z3 numeral (exact)"""
    if isinstance(x, z3.ExprRef):
        return x
    if isinstance(x, bool):
        return z3.BoolVal(x)
    if isinstance(x, int):
        return z3.IntVal(x)
    if isinstance(x, Fraction):
        return z3.RealVal(x) if x.denominator != 1 else z3.RealVal(x.numerator)
    if isinstance(x, float):
        if x != x or x in (math.inf, -math.inf):
            raise ValueError("cannot lift non-finite float")
        return z3.RealVal(Fraction(x))
    if hasattr(x, "item"):
        return lift(x.item())
    raise TypeError(f"cannot lift {type(x)}")


def b2i(x):
    if isinstance(x, bool):
        return int(x)
    if isinstance(x, z3.BoolRef):
        return z3.If(x, z3.IntVal(1), z3.IntVal(0))
    return x


def _is_int_sym(x):
    return isinstance(x, z3.ArithRef) and x.is_int()


def _num_of(x):
    """z3 numeral -> python number or None"""
    if z3.is_int_value(x):
        return x.as_long()
    if z3.is_rational_value(x):
        return Fraction(x.numerator_as_long(), x.denominator_as_long())
    return None


def conc(x):
    """fold z3 numerals / true / false back to python"""
    if isinstance(x, z3.BoolRef):
        if z3.is_true(x):
            return True
        if z3.is_false(x):
            return False
        return x
    if isinstance(x, z3.ArithRef):
        v = _num_of(x)
        return x if v is None else v
    return x


# ---------------------------------------------------------------- boolean
def and_(*xs):
    out = []
    for x in xs:
        if x is True:
            continue
        if x is False:
            return False
        out.append(x)
    if not out:
        return True
    if len(out) == 1:
        return out[0]
    return z3.And(*out)


def or_(*xs):
    out = []
    for x in xs:
        if x is False:
            continue
        if x is True:
            return True
        out.append(x)
    if not out:
        return False
    if len(out) == 1:
        return out[0]
    return z3.Or(*out)


def not_(x):
    if isinstance(x, bool):
        return not x
    if z3.is_not(x):
        return x.arg(0)
    return z3.Not(x)


def implies(a, b):
    return or_(not_(a), b)


def truth(x):
    if x is UNDEF:
        return False
    """C / Python truthiness as a Boolean"""
    if isinstance(x, (bool, z3.BoolRef)):
        return x
    if isinstance(x, _num):
        return x != 0
    if isinstance(x, NF):
        return or_(x.nan, ne(x.val, 0))
    if isinstance(x, z3.ArithRef):
        return ne(x, 0)
    if is_fp(x):
        return z3.Not(z3.fpIsZero(x))
    if x is None:
        return False
    if hasattr(x, "item"):
        return bool(x)
    return bool(x)


def ite(c, a, b):
    if c is True:
        return a
    if c is False:
        return b
    if a is UNDEF:
        return b
    if b is UNDEF:
        return a
    if a is b:
        return a
    if isinstance(a, NF) or isinstance(b, NF):
        a, b = to_nf(a), to_nf(b)
        return NF(ite(c, a.nan, b.nan), ite(c, a.val, b.val))
    if is_fp(a) or is_fp(b):
        if is_fp(a) and is_fp(b) and a.sort() != b.sort():
            a, b = _fp_promote(a, b)
        elif not is_fp(a):
            a = fp_cast(a, b.sort())
        elif not is_fp(b):
            b = fp_cast(b, a.sort())
        return z3.If(c, a, b)
    if isinstance(a, bool) and isinstance(b, bool):
        if a == b:
            return a
        return c if a else not_(c)
    if is_bool(a) != is_bool(b):
        a, b = b2i(a), b2i(b)
    if not is_sym(a) and not is_sym(b):
        if a == b and type(a) is type(b):
            return a
    elif isinstance(a, z3.ExprRef) and isinstance(b, z3.ExprRef) and a.eq(b):
        return a
    la, lb = lift(a), lift(b)
    if la.sort() != lb.sort():
        if z3.is_int(la):
            la = z3.ToReal(la)
        if z3.is_int(lb):
            lb = z3.ToReal(lb)
    return z3.If(c, la, lb)


# ---------------------------------------------------------------- arithmetic
def to_nf(x):
    if isinstance(x, NF):
        return x
    if isinstance(x, float) and x != x:
        return NF(True, 0)
    return NF(False, x)


def _nf2(op, a, b):
    a, b = to_nf(a), to_nf(b)
    return NF(or_(a.nan, b.nan), op(a.val, b.val))


def _arith(a, b, pyop, zop, fpop=None):
    if a is UNDEF or b is UNDEF:
        return UNDEF
    if is_fp(a) or is_fp(b):
        a, b = _fp_promote(a, b)
        if ABSTRACT_FP[0]:
            ABSTRACT_FP[1] += 1
            return z3.FP(f"absfp{ABSTRACT_FP[1]}", a.sort())
        return fpop(RNE, a, b)
    if isinstance(a, NF) or isinstance(b, NF):
        return _nf2(lambda x, y: _arith(x, y, pyop, zop), a, b)
    a, b = b2i(a), b2i(b)
    if not is_sym(a) and not is_sym(b):
        return pyop(a, b)
    return zop(_c(a), _c(b))


def _c(x):
    """make python numbers palatable to z3 operators"""
    if isinstance(x, (Fraction, float)) or hasattr(x, "item"):
        return lift(x)
    return x


def add(a, b):
    if a is UNDEF or b is UNDEF:
        return UNDEF
    if not is_sym(b) and not isinstance(b, bool) and b == 0 and not isinstance(b, float):
        return a
    if not is_sym(a) and not isinstance(a, bool) and a == 0 and not isinstance(a, float):
        return b
    return _arith(a, b, lambda x, y: x + y, lambda x, y: x + y, z3.fpAdd)


def sub(a, b):
    if a is UNDEF or b is UNDEF:
        return UNDEF
    if not is_sym(b) and not isinstance(b, bool) and b == 0 and not isinstance(b, float):
        return a
    return _arith(a, b, lambda x, y: x - y, lambda x, y: x - y, z3.fpSub)


def mul(a, b):
    if a is UNDEF or b is UNDEF:
        return UNDEF
    for p, q in ((a, b), (b, a)):
        if not is_sym(p) and not isinstance(p, (bool, float)):
            if p == 1:
                return b2i(q)
            if p == 0 and not isinstance(q, NF) and not is_fp(q):
                return 0
    return _arith(a, b, lambda x, y: x * y, lambda x, y: x * y, z3.fpMul)


def neg(a):
    if a is UNDEF:
        return UNDEF
    if is_fp(a):
        return z3.fpNeg(a)
    if isinstance(a, NF):
        return NF(a.nan, neg(a.val))
    a = b2i(a)
    return -a


def _pydiv(x, y):
    if isinstance(x, int) and isinstance(y, int):
        return Fraction(x, y)
    return x / y


def div(a, b):
    """true division (real result); caller handles the divisor == 0 event"""
    if a is UNDEF or b is UNDEF:
        return UNDEF
    if is_fp(a) or is_fp(b):
        a, b = _fp_promote(a, b)
        return z3.fpDiv(RNE, a, b)
    if isinstance(a, NF) or isinstance(b, NF):
        return _nf2(div, a, b)
    a, b = b2i(a), b2i(b)
    if not is_sym(a) and not is_sym(b):
        return _pydiv(a, b)
    la, lb = lift(a), lift(b)
    if z3.is_int(la):
        la = z3.ToReal(la)
    if z3.is_int(lb):
        lb = z3.ToReal(lb)
    if RECIPROCALS[0] and z3.is_app_of(lb, z3.Z3_OP_DIV) and z3.is_rational_value(lb.arg(0)) and lb.arg(0).as_fraction() != 0:
        # x / (k / d) = x * d / k   (callers enabling this assume d != 0, e.g. conductances d > 0)
        k = lb.arg(0).as_fraction()
        r = la * lb.arg(1)
        return z3.simplify(r if k == 1 else r / z3.RealVal(str(k)))
    return la / lb


def floordiv(a, b):
    a, b = b2i(a), b2i(b)
    if not is_sym(a) and not is_sym(b):
        return a // b
    la, lb = lift(a), lift(b)
    if z3.is_int(la) and z3.is_int(lb):
        # python floor semantics; z3 div is euclidean (= floor for a positive divisor)
        if not is_sym(b) and b > 0:
            return la / lb
        q = la / lb
        return z3.If(z3.Or(lb > 0, la % lb == 0), q, q - 1)
    return floor_(div(a, b))


def mod(a, b):
    a, b = b2i(a), b2i(b)
    if not is_sym(a) and not is_sym(b):
        return a % b
    return sub(a, mul(floordiv(a, b), b))


def floor_(x):
    if x is UNDEF:
        return UNDEF
    """floor to integer"""
    if isinstance(x, NF):
        raise ValueError("floor of NaN-able")
    if not is_sym(x):
        return math.floor(x)
    if x.is_int():
        return x
    return z3.ToInt(x)


def trunc(x):
    if x is UNDEF:
        return UNDEF
    """C float->int conversion (toward zero)"""
    if isinstance(x, NF):
        x = x.val
    if isinstance(x, bool):
        return int(x)
    if not is_sym(x):
        return int(x)
    if isinstance(x, z3.BoolRef):
        return b2i(x)
    if x.is_int():
        return x
    return z3.If(x >= 0, z3.ToInt(x), -z3.ToInt(-x))


def to_real(x):
    if x is UNDEF:
        return UNDEF
    if isinstance(x, NF):
        return x
    x = b2i(x)
    if not is_sym(x):
        return x if isinstance(x, (float, Fraction)) else Fraction(x)
    return z3.ToReal(x) if x.is_int() else x


def abs_(x):
    if x is UNDEF:
        return UNDEF
    if is_fp(x):
        return z3.fpAbs(x)
    if isinstance(x, NF):
        return NF(x.nan, abs_(x.val))
    x = b2i(x)
    if not is_sym(x):
        return abs(x)
    return z3.If(x >= 0, x, -x)


# ---------------------------------------------------------------- comparisons
def _leaves(x):
    """if x is If(c, num, num) return (c, a, b) with python numbers"""
    if isinstance(x, z3.ArithRef) and z3.is_app(x) and x.decl().kind() == z3.Z3_OP_ITE:
        a, b = _num_of(x.arg(1)), _num_of(x.arg(2))
        if a is not None and b is not None:
            return x.arg(0), a, b
    return None


def _cmp(a, b, pyop, zop, nan_result, fpop=None):
    if a is UNDEF or b is UNDEF:
        return False
    if is_fp(a) or is_fp(b):
        a, b = _fp_promote(a, b)
        return fpop(a, b)
    if isinstance(a, NF) or isinstance(b, NF):
        a, b = to_nf(a), to_nf(b)
        r = _cmp(a.val, b.val, pyop, zop, nan_result)
        anynan = or_(a.nan, b.nan)
        if nan_result:
            return or_(anynan, r)
        return and_(not_(anynan), r)
    if is_bool(a) and is_bool(b) and (is_sym(a) or is_sym(b)) and pyop in (_eq, _ne):
        if isinstance(a, bool):
            a, b = b, a
        if isinstance(b, bool):
            r = a if b else not_(a)
        else:
            r = (a == b)
        return r if pyop is _eq else not_(r)
    a, b = b2i(a), b2i(b)
    if not is_sym(a) and not is_sym(b):
        return bool(pyop(a, b))
    if not is_sym(b):
        lv = _leaves(a)
        if lv is not None:
            c, x, y = lv
            return ite(c, bool(pyop(x, b)), bool(pyop(y, b)))
    if not is_sym(a):
        lv = _leaves(b)
        if lv is not None:
            c, x, y = lv
            return ite(c, bool(pyop(a, x)), bool(pyop(a, y)))
    return zop(_c(a) if is_sym(b) else lift(a), _c(b) if is_sym(a) else lift(b))


def _eq(x, y):
    return x == y


def _ne(x, y):
    return x != y


def lt(a, b):
    return _cmp(a, b, lambda x, y: x < y, lambda x, y: x < y, False, z3.fpLT)


def le(a, b):
    return _cmp(a, b, lambda x, y: x <= y, lambda x, y: x <= y, False, z3.fpLEQ)


def gt(a, b):
    return _cmp(a, b, lambda x, y: x > y, lambda x, y: x > y, False, z3.fpGT)


def ge(a, b):
    return _cmp(a, b, lambda x, y: x >= y, lambda x, y: x >= y, False, z3.fpGEQ)


def eq(a, b):
    return _cmp(a, b, _eq, lambda x, y: x == y, False, z3.fpEQ)


def ne(a, b):
    return _cmp(a, b, _ne, lambda x, y: x != y, True, lambda x, y: z3.Not(z3.fpEQ(x, y)))


def min_c(a, b):
    """Cython/C  min(a, b) == (b < a) ? b : a"""
    return ite(lt(b, a), b, a)


def max_c(a, b):
    return ite(gt(b, a), b, a)


def total(xs):
    s = 0
    for x in xs:
        s = add(s, x)
    return s


# ---------------------------------------------------------------- model evaluation
def model_value(m, x):
    """evaluate value x (python | z3 | NF) in model m -> python number/bool/nan"""
    if isinstance(x, NF):
        n = model_value(m, x.nan)
        return float("nan") if n else model_value(m, x.val)
    if not isinstance(x, z3.ExprRef):
        return x
    v = m.eval(x, model_completion=True)
    if is_fp(v):
        import struct
        bv = z3.simplify(z3.fpToIEEEBV(v)).as_long()
        if v.sort() == F32:
            return struct.unpack("<f", struct.pack("<I", bv))[0]
        return struct.unpack("<d", struct.pack("<Q", bv))[0]
    if z3.is_true(v):
        return True
    if z3.is_false(v):
        return False
    n = _num_of(v)
    if n is not None:
        return n
    if z3.is_algebraic_value(v):
        a = v.approx(20)
        return Fraction(a.numerator_as_long(), a.denominator_as_long())
    raise ValueError(f"cannot evaluate {v}")
