"""Engine H: effect extraction from the current sources (AST + real MRO) and bounded model checking of
call histories for stale cache hits; candidates are replayed on real objects."""
import ast
import inspect
import textwrap

import z3


class MethodFx:
    def __init__(self, name, owner):
        self.name = name
        self.owner = owner
        self.reads = set()
        self.writes = set()
        self.counter_ops = []      # (attr, 'set'|'add', const)
        self.calls = []            # ('self', name) | ('class', ClassName, name) | ('prop', name)
        self.cached_attrs = None   # tuple of attrs if decorated with Cached.method
        self.is_cached = False
        self.lineno = 0


MUTATING_CALLS = {"sort", "fill", "append", "extend", "insert", "pop", "remove", "clear", "update", "resize",
                  "simplify", "delete_edges", "add_edges", "rewire", "shuffle", "setdiag", "eliminate_zeros"}


def _self_attr(node):
    """self.x  -> 'x';  self.x.y / self.x[...] -> 'x' (root attribute); getattr(self, 'x', d) -> 'x'"""
    if isinstance(node, ast.Call) and isinstance(node.func, ast.Name) and node.func.id == "getattr" and len(node.args) >= 2 \
            and isinstance(node.args[0], ast.Name) and node.args[0].id == "self" and isinstance(node.args[1], ast.Constant):
        return node.args[1].value
    while isinstance(node, (ast.Attribute, ast.Subscript)):
        if isinstance(node, ast.Attribute) and isinstance(node.value, ast.Name) and node.value.id == "self":
            return node.attr
        node = node.value
    return None


class FxVisitor(ast.NodeVisitor):
    def __init__(self, fx, aliases=None):
        self.fx = fx
        self.local_alias = {}      # local name -> self attribute it aliases (x = self.attr)
        self.cond = 0              # > 0 while inside a conditional / loop / try body

    def _nested(self, node):
        self.cond += 1
        self.generic_visit(node)
        self.cond -= 1

    def visit_If(self, node):
        self.visit(node.test)
        self.cond += 1
        for st in node.body + node.orelse:
            self.visit(st)
        self.cond -= 1

    def visit_While(self, node):
        self._nested(node)

    def visit_Try(self, node):
        self._nested(node)

    def visit_Assign(self, node):
        for t in node.targets:
            self._target(t, node.value)
        # alias tracking: x = self.attr  (mutations through x count as writes to attr)
        if len(node.targets) == 1 and isinstance(node.targets[0], ast.Name):
            a = _self_attr(node.value) if isinstance(node.value, (ast.Attribute,)) else None
            if a is not None and isinstance(node.value, ast.Attribute) and isinstance(node.value.value, ast.Name):
                self.local_alias[node.targets[0].id] = a
            elif isinstance(node.value, ast.Call):
                # x = self.method()  -> alias of a cached result (writes through it are purity issues, C06)
                pass
        self.visit(node.value)

    def visit_AnnAssign(self, node):
        if node.value is not None:
            self._target(node.target, node.value)
            self.visit(node.value)

    def _target(self, t, value=None):
        if isinstance(t, (ast.Tuple, ast.List)):
            for e in t.elts:
                self._target(e)
            return
        a = _self_attr(t)
        if a is not None:
            if isinstance(t, ast.Attribute) and isinstance(t.value, ast.Name):
                # direct assignment self.a = value
                self.fx.writes.add(a)
                self.fx.calls.append(("prop", a, self.cond > 0))
                if a.startswith("_mut_") and isinstance(value, ast.Constant) and isinstance(value.value, int):
                    self.fx.counter_ops.append((a, "set", value.value, self.cond > 0))
            else:
                self.fx.writes.add(a)       # self.a[...] = v / self.a.b = v
            return
        if isinstance(t, (ast.Subscript, ast.Attribute)):
            root = t
            while isinstance(root, (ast.Subscript, ast.Attribute)):
                root = root.value
            if isinstance(root, ast.Name) and root.id in self.local_alias:
                self.fx.writes.add(self.local_alias[root.id])

    def visit_AugAssign(self, node):
        a = _self_attr(node.target)
        if a is not None:
            self.fx.writes.add(a)
            self.fx.reads.add(a)
            if a.startswith("_mut_") and isinstance(node.op, ast.Add) and isinstance(node.value, ast.Constant):
                self.fx.counter_ops.append((a, "add", node.value.value, self.cond > 0))
        elif isinstance(node.target, ast.Name) and node.target.id in self.local_alias:
            self.fx.writes.add(self.local_alias[node.target.id])
        elif isinstance(node.target, (ast.Subscript, ast.Attribute)):
            self._target(node.target)
        self.visit(node.value)

    def visit_Delete(self, node):
        for t in node.targets:
            a = _self_attr(t)
            if a is not None:
                self.fx.writes.add(a)

    def visit_Attribute(self, node):
        if isinstance(node.value, ast.Name) and node.value.id == "self" and isinstance(node.ctx, ast.Load):
            self.fx.reads.add(node.attr)
        self.generic_visit(node)

    def visit_Call(self, node):
        f = node.func
        if isinstance(f, ast.Attribute):
            if isinstance(f.value, ast.Name) and f.value.id == "self":
                self.fx.calls.append(("self", f.attr, self.cond > 0))
            elif isinstance(f.value, ast.Name) and node.args and isinstance(node.args[0], ast.Name) and node.args[0].id == "self":
                self.fx.calls.append(("class", f.value.id, f.attr, self.cond > 0))
            elif isinstance(f.value, ast.Call) and isinstance(f.value.func, ast.Name) and f.value.func.id == "super":
                self.fx.calls.append(("super", f.attr, self.cond > 0))
            else:
                a = _self_attr(f.value)
                if a is not None and f.attr in MUTATING_CALLS:
                    self.fx.writes.add(a)
                if isinstance(f.value, ast.Name) and f.value.id in self.local_alias and f.attr in MUTATING_CALLS:
                    self.fx.writes.add(self.local_alias[f.value.id])
        # igraph edge attribute effects:  e[attr] = v inside `for e in self.graph.es`
        self.generic_visit(node)

    def visit_For(self, node):
        # for e in self.graph.es: e[name] = ...   -> write to graph
        a = _self_attr(node.iter) if isinstance(node.iter, (ast.Attribute, ast.Subscript)) else None
        if a is not None and isinstance(node.target, ast.Name):
            self.local_alias[node.target.id] = a
        self._nested(node)


def parse_function(func):
    src = textwrap.dedent(inspect.getsource(func))
    tree = ast.parse(src)
    return tree.body[0], inspect.getsourcelines(func)[1]


def cached_decorator_info(fnode):
    """-> (is_cached, attrs tuple|None) from the decorator list of a FunctionDef"""
    for d in fnode.decorator_list:
        call = d if isinstance(d, ast.Call) else None
        target = call.func if call else d
        if isinstance(target, ast.Attribute) and target.attr == "method" and isinstance(target.value, ast.Name) \
                and target.value.id == "Cached":
            attrs = None
            if call:
                for kw in call.keywords:
                    if kw.arg == "attrs" and isinstance(kw.value, ast.Tuple):
                        attrs = tuple(e.value for e in kw.value.elts if isinstance(e, ast.Constant))
            return True, attrs
    return False, None


class ClassModel:
    def __init__(self, cls):
        self.cls = cls
        self.fx = {}
        self._raw = {}
        self.props = {}
        for klass in cls.__mro__:
            if klass.__module__.startswith("pyunicorn") is False:
                continue
            for name, obj in vars(klass).items():
                if isinstance(obj, property):
                    self.props.setdefault(name, obj)
        self.cache_state_attrs = self._cache_state()

    def resolve(self, name, start_cls=None):
        """function object for `name` via the MRO of start_cls (default: the runtime class)"""
        mro = (start_cls or self.cls).__mro__
        for klass in mro:
            if name in vars(klass):
                obj = vars(klass)[name]
                if isinstance(obj, (staticmethod, classmethod)):
                    obj = obj.__func__
                if isinstance(obj, property):
                    return None, klass
                f = obj
                while hasattr(f, "__wrapped__"):
                    f = f.__wrapped__
                if inspect.isfunction(f):
                    return f, klass
                return None, klass
        return None, None

    def raw_fx(self, func, owner, name):
        key = (owner.__name__, name, id(func))
        if key in self._raw:
            return self._raw[key]
        fx = MethodFx(name, owner)
        try:
            node, line = parse_function(func)
        except (OSError, TypeError, SyntaxError, IndentationError):
            self._raw[key] = fx
            return fx
        fx.lineno = line
        fx.is_cached, fx.cached_attrs = cached_decorator_info(node)
        v = FxVisitor(fx)
        for st in node.body:
            v.visit(st)
        self._raw[key] = fx
        return fx

    def class_by_name(self, cname):
        for klass in self.cls.__mro__:
            if klass.__name__ == cname:
                return klass
        import pyunicorn
        import sys
        for m in list(sys.modules.values()):
            if m is not None and getattr(m, "__name__", "").startswith("pyunicorn") and hasattr(m, cname):
                c = getattr(m, cname)
                if inspect.isclass(c):
                    return c
        return None

    def effects(self, name, start_cls=None, _stack=None, setter=False):
        """transitive effect summary of method `name` (inlining self.m(), Class.m(self), property setters)"""
        _stack = _stack or set()
        if setter:
            prop = None
            for klass in (start_cls or self.cls).__mro__:
                if name in vars(klass) and isinstance(vars(klass)[name], property):
                    prop = vars(klass)[name]
                    owner = klass
                    break
            if prop is None or prop.fset is None:
                return None
            func = prop.fset
        else:
            func, owner = self.resolve(name, start_cls)
            if func is None:
                return None
        key = (owner.__name__, name, setter)
        if key in _stack:
            return MethodFx(name, owner)
        _stack = _stack | {key}
        raw = self.raw_fx(func, owner, name + (".setter" if setter else ""))
        out = MethodFx(name, owner)
        out.is_cached, out.cached_attrs, out.lineno = raw.is_cached, raw.cached_attrs, raw.lineno
        out.reads |= raw.reads
        out.writes |= raw.writes
        # order matters for counters: re-walk in source order is approximated by: own ops interleaved by call position
        # (we keep: ops of callees appended in call order, own ops in statement order) -> recorded as a flat list
        ops = []
        for c in raw.calls:
            sub = None
            if c[0] == "self":
                sub = self.effects(c[1], None, _stack)
            elif c[0] == "class":
                k = self.class_by_name(c[1])
                if k is not None:
                    sub = self.effects(c[2], k, _stack)
            elif c[0] == "super":
                mro = list(self.cls.__mro__)
                if owner in mro:
                    nxt = mro[mro.index(owner) + 1:]
                    for k in nxt:
                        if c[1] in vars(k):
                            sub = self.effects(c[1], k, _stack)
                            break
            elif c[0] == "prop":
                if c[1] in self.props and self.props[c[1]].fset is not None:
                    sub = self.effects(c[1], None, _stack, setter=True)
            if sub is not None:
                out.reads |= sub.reads
                out.writes |= sub.writes
                opt = bool(c[-1])
                ops.extend([(o[0], o[1], o[2], o[3] or opt) for o in sub.counter_ops])
        # own counter ops: 'set' ops come first in all observed code (initialisation), 'add' after the work
        own_sets = [o for o in raw.counter_ops if o[1] == "set"]
        own_adds = [o for o in raw.counter_ops if o[1] == "add"]
        out.counter_ops = own_sets + ops + own_adds
        # property reads -> getter effects
        for r in list(out.reads):
            if r in self.props and self.props[r].fget is not None:
                g = self.raw_fx(self.props[r].fget, self.cls, r + ".getter")
                out.reads |= g.reads
        return out

    def _cache_state(self, start_cls=None, depth=0):
        func, owner = self.resolve("__cache_state__", start_cls)
        if func is None or depth > 6:
            return ()
        try:
            node, _ = parse_function(func)
        except Exception:  # noqa
            return ()
        if start_cls is None:
            self.cache_state_owner = owner.__name__
        attrs = []

        def collect(e):
            if isinstance(e, ast.Tuple):
                for x in e.elts:
                    a = _self_attr(x)
                    if a is not None:
                        attrs.append(a)
            elif isinstance(e, ast.BinOp):
                collect(e.left)
                collect(e.right)
            elif isinstance(e, ast.Call) and isinstance(e.func, ast.Attribute) and e.func.attr == "__cache_state__":
                if isinstance(e.func.value, ast.Name):
                    k = self.class_by_name(e.func.value.id)
                    if k is not None:
                        attrs.extend(self._cache_state(k, depth + 1))
                elif isinstance(e.func.value, ast.Call):      # super().__cache_state__()
                    mro = list(self.cls.__mro__)
                    if owner in mro:
                        for k in mro[mro.index(owner) + 1:]:
                            if "__cache_state__" in vars(k) and k.__name__ != "Cached":
                                attrs.extend(self._cache_state(k, depth + 1))
                                break
        for st in ast.walk(node):
            if isinstance(st, ast.Return) and st.value is not None:
                collect(st.value)
        return tuple(attrs)

    def cached_methods(self):
        out = {}
        for klass in self.cls.__mro__:
            if not klass.__module__.startswith("pyunicorn"):
                continue
            for name, obj in vars(klass).items():
                f, owner = self.resolve(name)
                if f is None or owner is not klass:
                    continue
                raw = self.raw_fx(f, owner, name)
                if raw.is_cached and name not in out:
                    out[name] = self.effects(name)
        return out


def bmc_stale(model, qname, qfx, mutators, k, max_candidates=6):
    """histories  construct . u_1 .. u_k  with a query of `qname` before and after: can the second query hit
    the first one's entry although an attribute in its read set was written?  -> list of candidate histories"""
    key_attrs = list(model.cache_state_attrs) + list(qfx.cached_attrs or ())
    reads = sorted(a for a in qfx.reads if not a.startswith("_mut_") and a not in ("silence_level",))
    attrs = sorted(set(key_attrs) | set(reads) | {a for u in mutators.values() for a in u.writes})
    names = sorted(mutators)
    if not names or not reads:
        return []
    s = z3.Solver()
    s.set("timeout", 20000)
    U = [z3.Int(f"u{t}") for t in range(k)]
    for u in U:
        s.add(u >= 0, u < len(names))
    ver = {a: [z3.Int(f"ver_{a}_{t}") for t in range(k + 1)] for a in attrs}
    cnt = {a: [z3.Int(f"cnt_{a}_{t}") for t in range(k + 1)] for a in attrs if a.startswith("_mut_")}
    for a in attrs:
        s.add(ver[a][0] == 0)
    for a in cnt:
        s.add(cnt[a][0] >= 0, cnt[a][0] <= 3)      # counter value after construction (arbitrary small)
    for t in range(k):
        for a in attrs:
            nxt = ver[a][t]
            for i, nm in enumerate(names):
                if a in mutators[nm].writes:
                    nxt = z3.If(U[t] == i, ver[a][t] + 1, nxt)
            s.add(ver[a][t + 1] == nxt)
        for a in cnt:
            nxt = cnt[a][t]
            for i, nm in enumerate(names):
                val = cnt[a][t]
                touched = False
                for oi, (ca, op, c, optional) in enumerate(mutators[nm].counter_ops):
                    if ca != a:
                        continue
                    touched = True
                    new = z3.IntVal(c) if op == "set" else val + c
                    if optional:
                        new = z3.If(z3.Bool(f"take_{t}_{i}_{oi}"), new, val)
                    val = new
                if touched:
                    nxt = z3.If(U[t] == i, val, nxt)
            s.add(cnt[a][t + 1] == nxt)

    # a non-counter key attribute that is re-assigned may keep its value (e.g. self.directed = directed):
    # its *key* version may or may not advance, its *data* version always does
    kver = {a: [z3.Int(f"kver_{a}_{t}") for t in range(k + 1)] for a in key_attrs if a not in cnt}
    for a in kver:
        s.add(kver[a][0] == 0)
        for t in range(k):
            s.add(z3.Or(kver[a][t + 1] == kver[a][t], z3.And(kver[a][t + 1] == kver[a][t] + 1, ver[a][t + 1] != ver[a][t])))

    def keyval(a, t):
        return cnt[a][t] if a in cnt else kver[a][t]
    s.add(z3.And(*[keyval(a, 0) == keyval(a, k) for a in key_attrs]) if key_attrs else z3.BoolVal(True))
    s.add(z3.Or(*[ver[a][0] != ver[a][k] for a in reads]))
    out = []
    verdicts = []
    while len(out) < max_candidates:
        r = str(s.check())
        verdicts.append(r)
        if r != "sat":
            break
        m = s.model()
        hist = [names[m.eval(u, model_completion=True).as_long()] for u in U]
        changed = [a for a in reads if m.eval(ver[a][0] != ver[a][k], model_completion=True)]
        out.append({"query": qname, "history": hist, "changed": [str(a) for a in changed]})
        s.add(z3.Or(*[u != m.eval(u, model_completion=True) for u in U]))
    return out, verdicts
