#!/bin/bash
# Re-run the registered quick check of every kept seeded change against a scratch worktree of /repo with that change applied.
# Expected: exit 1 (VIOLATION) for every seed; the table is written to /verif/seeded/RESULTS.txt.  Scratch lives under /var/tmp and is removed.
cd /verif || exit 2
out=/verif/seeded/RESULTS.txt
: > "$out.tmp"
only="$1"
for d in /verif/seeded/*/; do
  name=$(basename "$d")
  [ -n "$only" ] && [ "$only" != "$name" ] && continue
  id=${name%%-*}
  wt=/var/tmp/seedwt-$name
  rm -rf "$wt"; git -C /repo worktree prune
  git -C /repo worktree add -q --detach "$wt" HEAD || { echo "$name worktree-failed" >> "$out.tmp"; continue; }
  if ! git -C "$wt" apply "$d/patch.diff" 2>/dev/null; then
    if ! git -C "$wt" apply --3way "$d/patch.diff" 2>/dev/null; then
      echo "$name patch-does-not-apply-to-current-HEAD" >> "$out.tmp"
      git -C /repo worktree remove --force "$wt"; continue
    fi
  fi
  t0=$(date +%s)
  VERIF_REPO="$wt" ./check "$id" quick > "/var/tmp/seedrun-$name.log" 2>&1
  rc=$?
  t1=$(date +%s)
  nv=$(grep -c '^VIOLATION' "/var/tmp/seedrun-$name.log")
  echo "$name check=$id exit=$rc violations=$nv seconds=$((t1-t0))" >> "$out.tmp"
  git -C /repo worktree remove --force "$wt"
  rm -rf /var/tmp/pyunicorn-verif-alt-evidence
done
git -C /repo worktree prune
mv "$out.tmp" "$out"
cat "$out"
