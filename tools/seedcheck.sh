#!/bin/bash
# Re-run the registered quick check of kept seeded changes against a scratch worktree of /repo's HEAD with the change applied.
# usage: tools/seedcheck.sh [seed-name ...]   (default: all).  Expected: exit 1 with >= 1 VIOLATION line for every seed
# (seeds whose meta.json says "not caught" are expected to give exit 0).
# Results are merged into /verif/seeded/RESULTS.txt (one line per seed).  Scratch lives under /var/tmp and is removed.
cd /verif || exit 2
out=/verif/seeded/RESULTS.txt
touch "$out"
names="$@"
[ -z "$names" ] && names=$(ls -d /verif/seeded/*/ | xargs -n1 basename)
for name in $names; do
  d=/verif/seeded/$name
  id=${name%%-*}
  wt=/var/tmp/seedwt-$name
  git -C /repo worktree remove --force "$wt" 2>/dev/null; rm -rf "$wt"; git -C /repo worktree prune
  line=""
  if ! git -C /repo worktree add -q --detach "$wt" HEAD; then
    line="$name worktree-failed"
  elif ! git -C "$wt" apply "$d/patch.diff" 2>/dev/null && ! git -C "$wt" apply --3way "$d/patch.diff" 2>/dev/null; then
    line="$name patch-does-not-apply-to-current-HEAD"
  else
    t0=$(date +%s)
    VERIF_REPO="$wt" ./check "$id" quick > "/var/tmp/seedrun-$name.log" 2>&1
    rc=$?
    nv=$(grep -c '^VIOLATION' "/var/tmp/seedrun-$name.log")
    line="$name check=$id exit=$rc violations=$nv seconds=$(( $(date +%s) - t0 ))"
  fi
  git -C /repo worktree remove --force "$wt" 2>/dev/null
  grep -v "^$name " "$out" > "$out.new"; echo "$line" >> "$out.new"; sort "$out.new" > "$out"; rm -f "$out.new"
  echo "$line"
done
git -C /repo worktree prune
