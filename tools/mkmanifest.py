#!/usr/bin/env python3
"""Regenerates MANIFEST.json from the table below (kept in one place so it is always valid)."""
import json, os
HERE = os.path.dirname(os.path.dirname(os.path.abspath(__file__)))
CLAIMED = {
 "C08": dict(
   engine="K",
   technique="bounded symbolic execution of the Cython kernels (own interpreter over Cython's parse tree) + z3 (LIA/LRA/FP); sat models replayed on the compiled extension",
   text="Bounded model checking: _line_dist through all its entry points is executed symbolically from the current .pyx; for every 0/1 matrix up to the bound (and every missing-value mask) z3 shows the histograms equal an independent run-length specification, the accounting identities hold, the sequential kernels equal the matrix kernels on the thresholded supremum-distance matrix (exact reals) and an IEEE-754 query over the declared C types decides whether the float comparison can differ from the matrix mode's double comparison.",
   note="Bounds: n<=4 arbitrary / n<=5 (6 thorough) symmetric matrices, sequential n<=4 (5), dim<=2. Exact real arithmetic except the IEEE lemma; translator validated against the compiled extension each run; trusted: z3, Cython parser. Outside: resampling, entropy values, larger matrices.",
   ref="DESIGN.md §3 C08"),
 "C14": dict(
   engine="K",
   technique="bounded symbolic execution of the Cython visibility kernels (parse-tree interpreter with feasibility-pruned control splitting) + z3 LRA/NRA over exact rationals with a NaN flag; sat models replayed through VisibilityGraph",
   text="Bounded model checking: the three visibility kernels and the retarded/advanced clustering kernels are executed symbolically from the current .pyx. For every real-valued series (and every NaN pattern for the missing-value kernel) up to the bound z3 shows that the adjacency equals the geometric criterion written independently, is symmetric with empty diagonal, is mirrored by time reversal and unchanged by positive affine maps; the clustering kernels equal their triangle-count definitions for every graph up to the bound.",
   note="Bounds: n<=6 (8 thorough) samples with integer timings, n<=4 (5) with symbolic increasing timings, graphs n<=5 (6). Exact rational arithmetic as the statement prescribes; float32 slope rounding outside. Translator validated against the compiled extension each run.",
   ref="DESIGN.md §3 C14"),
 "C03": dict(
   engine="K+P",
   technique="bounded symbolic execution of the real kernels (own guarded-merging interpreter over Cython's parse tree of the current numerics.pyx) and proxy-value execution of the real Network methods over adjacency bits / concrete topologies with symbolic link lengths; every comparison with the definition is a z3 query; sat models replayed on the real build through the public API",
   text="Bounded model checking of the library's own measure code: cliquishness kernels equal the clique-count definition for every graph up to the bound; the Newman chunk kernel equals its defining sum; the n.s.i. shortest-path betweenness kernel equals the path-count definition for every weight vector and source mask (also on disconnected graphs); degree, in/out/bilateral degree, neighbour degrees, matching index, Laplacians and the four directed motif clustering coefficients equal their definitions on the adjacency matrix (no exception for isolated nodes); link-length weighted closeness, average path length and global efficiency equal their definitions on the path-length matrix and leave the memoised matrix unchanged.",
   note='Bounds: cliquishness-4 n<=6, cliquishness-5 n<=6 per node, Newman sums n<=4 (5), n.s.i. betweenness all graphs n<=4, Python-level measures undirected bits n<=4 / directed bits n<=3, path family all graphs n<=4. Exact reals, C widths erased. Everything igraph/ARPACK computes (clustering, transitivity, unweighted closeness, betweenness, coreness, assortativity, spectral centralities) is outside: not pyunicorn code and not executable symbolically. Translator validated against the compiled extension each run.',
   ref="DESIGN.md §8.5 C03"),
 "C04": dict(
   engine="K",
   technique="bounded symbolic execution of the real kernels (own guarded-merging interpreter over Cython's parse tree of the current numerics.pyx) + z3; sat models replayed on the real build through the public API",
   text='Bounded model checking: for fully symbolic inputs each kernel is executed on a network and on its renumbering by every adjacent transposition (which generate all permutations) and z3 shows the results are the correspondingly permuted values.',
   note='Bounds: cliquishness-4 n<=4 (5), cross kernels n<=4 with all disjoint list pairs, n.s.i. betweenness kernel on all labelled graphs n<=4 (5) with real weights. igraph/ARPACK measures outside.',
   ref="DESIGN.md §3 C04"),
 "C11": dict(
   engine="K+P",
   technique="bounded symbolic execution of the real kernels (own guarded-merging interpreter over Cython's parse tree of the current numerics.pyx) + z3; sat models replayed on the real build through the public API",
   text='Bounded model checking: the Python cross/internal measures of InteractingNetworks are executed by Engine P (degree/density/clustering type measures over adjacency bits against the sub-block definitions, compiled = _sparse twins, argument-order symmetry; path-based measures per concrete topology incl. disconnected pairs and non-covering groups with symbolic link and node weights: sub-block locality, definition on connected blocks, order symmetry). Bounded model checking: the compiled cross kernels (plain and n.s.i.) are executed symbolically over adjacency bits and real weights for every ordered pair of disjoint node lists up to the bound, in ascending and shuffled list order, and z3 shows equality with the sub-block definitions.',
   note='Bounds: n<=4 all pairs, n=5 sampled (all in thorough). 0/0 n.s.i. transitivity (no cross link) outside. cross/internal betweenness (igraph) outside.',
   ref="DESIGN.md §3 C11"),
 "C19": dict(
   engine="K+P",
   technique="bounded symbolic execution of the real kernels (own guarded-merging interpreter over Cython's parse tree of the current numerics.pyx) + z3; sat models replayed on the real build through the public API",
   text='Bounded model checking of the master blocks: the real newman_betweenness / nsi_newman_betweenness / nsi_arenas_betweenness run under Engine P with the mpi module replaced by a recording stand-in (worker counts and silence levels enumerated, weights symbolic, kernel results and the matrix inverse uninterpreted): every retrieved id was submitted, the ranges partition [0,N), every submitted argument is the slice of the serial argument, the reassembled vector equals the serial one. Bounded model checking of what distribution relies on: for every graph and every contiguous chunk [s,e) the chunk kernels return exactly the slice of the serial defining sum, and the n.s.i. betweenness kernel is additive over every split of the target range (all labelled graphs up to the bound, symbolic weights and source masks).',
   note='Bounds: chunk kernels n<=4 (5), target splits on all graphs n<=4 (5). Real MPI transport/pickling outside; master-block arithmetic and protocol are separate obligations once present in evidence.',
   ref="DESIGN.md §3 C19"),
 "C02": dict(
   engine="P",
   technique="symbolic execution of the real (decorated) Network methods on z3-term proxies inside NumPy object arrays with scipy.sparse/igraph stand-ins patched into the module globals; node-splitting invariance decided by z3 (QF_NRA) per measure, variant, node and topology; sat models replayed with the real splitted_copy",
   text="Bounded model checking: every nsi_* measure of Network found by introspection (with its key / typical_weight variants, directed variants where implemented) is executed symbolically on a network and on its split (weights>0, proportion in (0,1), link attributes>0 symbolic). Degree-type measures use symbolic adjacency bits, rational measures of higher degree and path-based measures are decided per concrete labelled topology (all graphs up to the bound). z3 shows the equalities the statement demands (global, per node incl. both twins, pairwise on untouched pairs).",
   note="Bounds: bits n<=4 undirected / n<=3 directed; all labelled topologies n<=4 (5 thorough). Exact reals; shims validated against the unpatched library on SmallTestNetwork for every measure and variant each run. Outside: eigenvector centrality, spreading, histograms, Arenas/Newman random-walk betweenness.",
   ref="DESIGN.md §3 C02"),
 "C01": dict(
   engine="H",
   technique="bounded model checking (z3, QF_LIA) of call histories over an effect system extracted from the current sources (AST abstract interpretation with the real MRO: reads/writes of attributes, mutation-counter arithmetic, resolved __cache_state__ and per-method attrs); every sat history is replayed on real objects against a twin with cleared caches",
   text="Bounded model checking of cache coherence: for every class below Cached with a fixture and every cached method, z3 searches for a history construct / query / <=k public mutators / query in which the second query's cache key equals the first although an attribute in the method's (over-approximated) read set was written. Candidates are replayed on real objects with two distinct argument sets per mutator and the argument patterns defaults / key / typical_weight; only reproduced differences are reported.",
   note="Bounds: k<=1 quick, k<=2 thorough; 17 classes with fixtures. unsat is relative to the effect abstraction (getattr-based access and foreign-object state beyond igraph edge attributes not seen). Spectral measures (ARPACK random start vector) cannot be compared and are reported inconclusive. Values are not checked here, only coherence.",
   ref="DESIGN.md §3 C01"),
 "C07": dict(
   engine="K+P",
   technique="bounded symbolic execution: distance / embedding / adaptive-neighbourhood kernels by the Cython parse-tree interpreter, and the real constructors and setters of RecurrencePlot, CrossRecurrencePlot, JointRecurrencePlot/Network, RecurrenceNetwork by proxy-value execution (forking on sort comparisons and on int(rate*(N-1))), decided by z3 (LRA/NRA); sat models replayed on the real classes",
   text="Bounded model checking: for every real (NaN-able) series up to the bound and every threshold the recurrence matrix stored by the real classes equals the thresholded metric distances (missing rows/columns cleared), cross and joint (lagged) constructions are the stated compositions with N/M equal to the stored matrix sizes, the recurrence network is R without diagonal, fixed-rate thresholding is monotone in the distance and never exceeds the requested count, local rates give equal row counts under distinct distances, and the adaptive variant gives every state at least the requested number of neighbours without raising for any neighbour order.",
   note="Bounds: kernels length<=4, dim<=2, tau<=2; classes length<=3 (4 thorough), lag -1..2. Exact reals, dtype erasure; sqrt as algebraic variable. Outside: sampling-based threshold estimation, normalize=True, rounding.",
   ref="DESIGN.md §3 C07"),
 "C13": dict(
   engine="P",
   technique="proxy-value symbolic execution of the real Data / ClimateData / GeoGrid constructors and window setters (forking on every membership mask element), z3 (LRA) per path; sat models replayed on the real classes",
   text="Bounded model checking: for symbolic increasing time stamps, coordinates, observable values and window bounds, every path of Data.__init__/set_window/set_global_window exposes exactly the samples the closed-window rule of the statement selects (full axis when the two bounds coincide; an empty selection is rejected with ValueError), with matching grid axes and sizes, and the global window restores the full view; ClimateData phase means and anomalies have zero mean per phase, add back to the (windowed) observable for every cycle length incl. non-dividing ones, and with anomalies=True anomaly() is the windowed observable.",
   note="Bounds: T<=3, N<=2, window sequences <=2 (T=3,N=2 thorough); cycles 1..3 with T<=5 (4, T<=7 thorough). Exact reals; float32 axis storage not modelled. NetCDF loading outside.",
   ref="DESIGN.md §3 C13"),
 "C12": dict(
   engine="K+P",
   technique="bounded symbolic execution of the grid kernels (Cython parse-tree interpreter; exact reals with sin^2+cos^2=1 and an IEEE float32 run with over-approximated arithmetic for the clamp) and proxy-value execution of Grid/GeoGrid/GeoNetwork methods with uninterpreted cos/sin/arccos; z3 (NRA/FP)",
   text="Bounded model checking of what is decidable: exact symmetry of both distance matrices, the clamped spherical cosine formula with argument exactly 1 on the diagonal, clamp result in [-1,1] for every float32 value the arithmetic can produce, Euclidean distance = closed form (non-negative root of the squared sum), zero diagonal and triangle inequality in exact arithmetic, nearest-node lookup returns a minimiser, rectangular grids enumerate the Cartesian product in the documented order, node weights are cos / cos^2 of the node's own latitude (structural equality of uninterpreted terms) or 1.",
   note="Bounds: N<=3 (4 thorough) nodes, dim<=2 (3). NOT decided (outside this family): the numerical error bounds 2^-10 rad / 2^-20 relative and the approximate triangle inequality for angles -- they concern rounding of transcendental functions. region_indices outside.",
   ref="DESIGN.md §3 C12"),
 "C16": dict(
   engine="P",
   technique="proxy-value symbolic execution of the real EventSeries methods with symbolic event times, lag and window (exhaustive forking over coincidence patterns with solver feasibility checks), z3 (LRA) per path; sat models replayed on the real methods",
   text="Bounded model checking of the relations the statement lists: for concrete event patterns at symbolic increasing time stamps (simultaneous events across series included) and symbolic lag / taumax, event_synchronization is non-negative, exchanges its two outputs when the series are exchanged, is invariant under a common time shift and (taumax = inf) under time rescaling; event_coincidence_analysis rates lie in [0,1], exchange consistently and are shift invariant; the N x N analysis matrix equals the pairwise values under every symmetrisation option for ES and ECA; make_event_matrix marks exactly the samples beyond the value / median (NumPy quantile model).",
   note="Bounds: <=4 events per series at T=5 (5 at T=6 thorough), sampled pattern pairs (VERIF_SEED), N=3 for the matrix, T<=3 for thresholding. The closed counting formula with the library-specific double-counting correction is not re-stated as an oracle (it would demand more than the statement); significance tests (Monte Carlo) outside.",
   ref="DESIGN.md §3 C16"),
 "C15": dict(
   engine="K+P",
   technique="bounded symbolic execution: twin search and twin walk kernels by the Cython parse-tree interpreter (recurrence bits, symbolic twin lists and random draws as solver variables), Surrogates methods by proxy-value execution with nondeterministic RNG stubs (symbolic permutations) and an uninterpreted FFT pair over complex proxy scalars; z3 (LIA/NRA); sat models replayed on the real classes",
   text="Bounded model checking: twins are exactly the sufficiently separated states with identical recurrence rows (all symmetric matrices up to the bound); every state of a twin surrogate is an original state followed by its own or a twin's successor unless the series end forces a restart (all twin structures of the listed shapes, all draws); shuffle and (refined) AAFT 'true amplitudes' outputs are row-wise permutations for every permutation the RNG may return; the spectrum handed to the inverse FFT by correlated_noise_surrogates has the moduli of the forward spectrum at every frequency; the data and the memoised spectrum are unchanged after one and after two calls.",
   note="Bounds: n<=5 (6) for twins, N<=4 states for the walk, 2 series x 3 samples (1 x 3 for AAFT) and <=2 calls. The FFT itself is an environment stub (arbitrary spectrum / arbitrary inverse): the amplitude guarantee is decided up to the contract irfft(rfft(x)) = x. Statistical quality outside.",
   ref="DESIGN.md §3 C15"),
 "C09": dict(
   engine="P",
   technique="proxy-value symbolic execution of the real ClimateNetwork constructor and setters (GeoNetwork/Network chain with an igraph stand-in, angular-distance kernel through Engine K, tanh uninterpreted; sorting and the quantile index by forking), z3 (LRA) per path; sat models replayed on ClimateNetwork",
   text="Bounded model checking: for every similarity matrix of any sign up to the bound and every threshold, adjacency = [i != j and (damped) |S_ij| > theta], symmetric for symmetric input, with n_links, link_density and threshold() consistent after construction and after set_threshold sequences; for every requested density in [0,1] the realised density never exceeds the request and misses it by at most the pairs tied at the selected value, through the constructor and through set_link_density, for unit and for zero diagonals.",
   note="Bounds: N<=3 (4 thorough for thresholds), setter sequences <=2. Exact reals; the float32 cast of the similarity matrix is erased. How subclasses compute similarities is C10.",
   ref="DESIGN.md §3 C09"),
 "C17": dict(
   engine="K",
   technique="bounded symbolic execution (Cython parse-tree interpreter) of ONE accepted rewiring step from an arbitrary valid pre-state: concrete topology + consistent edge array (representation invariant), symbolic distance matrix, tolerance and random draws; z3 (LIA/LRA); sat models replayed on the compiled kernels over many seeds",
   text="Bounded model checking of the inductive step: after one accepted step of geographical rewiring I/II/III from every labelled graph up to the bound, for every distance matrix, tolerance and pair of drawn links, the adjacency is symmetric, loop-free and 0/1, every degree is unchanged, the edge array still lists each link once, the two new link lengths match the two removed ones within the tolerance and (III) the degree pairs of rewired links are equal; cross-link setting creates exactly the requested number of links and cross-link swaps preserve every cross degree, both leaving all other entries untouched (symbolic internal links). Histories of any length follow by induction since the post-state satisfies the invariant again.",
   note="Bounds: all graphs n=4 with >=2 links (n=5 sampled, thorough); bipartitions of n<=4. Rejection loops are analysed under the assumption that the drawn candidate is accepted (termination outside). igraph-based generators (ErdosRenyi, Configuration, WattsStrogatz, randomly_rewire) and the growth models are outside.",
   ref="DESIGN.md §3 C17"),
 "C06": dict(
   engine="P",
   technique="proxy-value symbolic execution with cell-level write tracking: arrays reachable from the caller, from the object and from the caches are snapshotted as terms before a query and compared cell by cell afterwards (z3 query per possibly-changed cell); sat models replayed on real objects",
   text="Bounded model checking of the frame condition (which subsumes all orderings of queries): on one Network/InteractingNetworks object every measure Engine P can execute is called in two opposite orders; after each call the adjacency, the node weights, the cached path lengths and every array returned earlier are cell-wise equal to their snapshots and repeating a query returns an equal value; ClimateNetwork: constructor leaves the caller's similarity matrix intact and inv_correlation_distance leaves the memoised correlation_distance intact; similarity estimators leave the anomaly array they are handed intact; recurrence constructors (also with normalize=True) leave caller series intact. Surrogates purity is decided in C15.",
   note="Bounds: 3 concrete topologies (n<=4) with symbolic weights/link attributes (more in thorough), ClimateNetwork N=3, 3 x 2 anomalies, 3-sample series. Methods documented as in-place are exempt. Objects P cannot execute (netCDF, plotting, igraph-only) outside.",
   ref="DESIGN.md §3 C06"),
 "C20": dict(
   engine="K+C",
   technique="bounded symbolic execution of the .pyx wrappers (Cython parse-tree interpreter) chained into a symbolic interpreter of src_numerics.c built from clang's JSON AST: pointers are (array, element offset, access type) and every load/store carries a byte-extent obligation decided by z3 (LIA/LRA) plus an IEEE-754 bit-precise lemma (QF_FP) for the float->bin index; sat models replayed on the compiled kernels with inputs ending at an unmapped guard page",
   text="Bounded model checking of memory safety at source level: for each of the six raw-pointer C routines reached through its wrapper with the arrays exactly as the wrapper allocates them, every dimension in the bound (N != T combinations included), symbolic array contents under the value contract the Python caller establishes, no load or store lies outside the byte extent of the array it was derived from, no access uses an element width other than the array's, no integer division by zero and no negative allocation size; histogram bin indices stay in range for all IEEE doubles; typed-buffer kernels are covered by reading the bounds-checking directives (IndexError is an allowed rejection).",
   note="Bounds: dimensions 1..3 (quick) / 1..4 (thorough), bins 1..2 (3). Source-level semantics of C99 with LP64 type sizes (long = 8 bytes; on LLP64 the long*/int64 pairing of _mutual_information is a width mismatch outside this claim). Stack exhaustion by alloca for huge tmax, the compiled artefact itself and surrogate arrays whose shape differs from the documented one are outside.",
   ref="DESIGN.md §3 C20"),
 "C18": dict(
   engine="P+K+C",
   technique="proxy-value symbolic execution of the real ResNetwork methods on concrete connected topologies with symbolic positive conductances; numpy.linalg.pinv is replaced by a model stating the defining equations of the pseudo-inverse (after a solver query shows that the matrix handed to it is the admittance Laplacian); each circuit law is a z3 query (QF_NRA/LRA); the C current-flow sums are executed by the clang-AST interpreter with fully symbolic matrices; sat models replayed on real ResNetwork objects against a NumPy reference",
   text="Bounded model checking: on every connected topology up to the bound and for all positive conductances within the symbolic budget, effective_resistance is symmetric, zero only on the diagonal, satisfies the triangle inequality, never exceeds the resistance of a connecting link (paths follow with the triangle inequality), equals the series sum on trees and the parallel law on cycles, and satisfies Foster's theorem; average/diameter/closeness, admittive degree, neighbour degree and clustering equal their defining sums; vertex and edge current-flow betweenness equal their defining sums for every admittance and R matrix (kernels) and receive the right matrices from the public methods; after update_resistances every quantity equals that of the new resistances and scales linearly with a common factor.",
   note="Bounds: n=3 and sparse n=4 with all conductances symbolic, all n=4 classes with two symbolic conductances, n=5 classes with one; kernels N<=3 (4 thorough). Exact reals: pinv's rounding and the float32 copies are outside; complex impedances outside.",
   ref="DESIGN.md §3 C18"),
 "C10": dict(
   engine="K+C+P",
   technique="bounded symbolic execution: Cython parse-tree interpreter on the funcnet cross-correlation / symmetrisation kernels, clang-AST interpreter on the C surrogate-test and histogram mutual-information routines (log uninterpreted; case split over bin patterns with the symbol cells rewritten to constants), proxy-value execution of the Spearman rank transform and of the matrices handed to numpy.corrcoef; every comparison with the reference statistic is a z3 query (LRA/NRA/UF); sat models replayed on the compiled kernels / real classes against NumPy and SciPy references",
   text="Bounded model checking: for every standardised array within the bound the lag function, its value and lag at the absolute maximum (both lag modes consistent) and the symmetrised matrices equal their definitions; the surrogate Pearson test equals the mean product; both C mutual-information routines assign every sample its bin and return sum p_lm log(p_lm/(p_l p_m)) of the joint histogram for every data set within the bound (symmetric where defined); the Spearman rank transform yields the textbook ranks for every ordering including ties and hands series as rows to corrcoef; the pure-Python and the compiled cross correlation agree at lag 0; information_transfer hands every (i, j, tau) estimate the documented X, Y and conditioning samples (knn: exactly; gauss: the standardised conditions reach qr and the basis used is the one computed for that triple) and both lag modes book the values correctly.",
   note="Bounds: N<=3, tau_max<=2, window<=3 (kernels); N<=3, T<=3 (Pearson test); N=2, T<=3, 2 bins (MI; more in thorough); T<=4 x N<=2 (ranks). Exact reals (single-precision rounding of results outside); the numerics of the knn / gaussian / binning estimators themselves (stubs returning one fresh value per call), partial correlation and the square-root standardisation inside cross_correlation are outside (DESIGN.md).",
   ref="DESIGN.md §3 C10"),
 "C05": dict(
   engine="P",
   technique="proxy-value symbolic execution of Network.__init__ / adjacency.setter / set_edge_list / FromIGraph / copy / save / Load with symbolic edge end points (forked per feasible value by the solver), symbolic adjacency bits, node weights and link attributes; igraph.Graph and its file formats are environment stubs with stated contracts; every observed quantity is compared with the reference by a z3 query; sat models replayed on real Network objects and real files",
   text="Bounded model checking: for every listing of a simple graph within the bound (each link once, or both directions for undirected networks; no links at all included), every adjacency matrix (dense and sparse) and every igraph-like object, the constructed network, its copy and the network (Network, SpatialNetwork, GeoNetwork) loaded back from graphml/graphmlz/pickle/gml have the node count, link count, link density, 0/1 symmetric loop-free adjacency, embedded graph, node weights with total and mean, and link attributes of the input.",
   note="Bounds: n<=3 (4 thorough), up to 3 listed edges, directed and undirected. The igraph C library and the bytes written to disk are replaced by a stub (contract: graphml/graphmlz/pickle keep all attributes; GML keys lose non-alphanumeric characters); SpatialNetwork/GeoNetwork save/Load are included with the grid file as an identity stub; ClimateNetwork save/Load and N=1 are outside.",
   ref="DESIGN.md §8.5 C05"),
}
NA_DEFAULT = "check not built yet in this round (see DESIGN.md §6 for the planned obligation)"
def main():
    props = [json.loads(l) for l in open(os.path.join(HERE, "properties.jsonl"))]
    checks, na = [], []
    for p in props:
        i = p["id"]
        if i in CLAIMED:
            c = CLAIMED[i]
            checks.append({
              "property_id": i,
              "quick_cmd": f"./check {i} quick",
              "thorough_cmd": f"./check {i} thorough",
              "evidence_file": f"/verif/evidence/{i}.json",
              "replay_cmd_template": f"./check {i} --replay {{path}}",
              "engine": c["engine"],
              "level_claimed": {"category": "model_checking", "text": c["text"], "design_ref": c["ref"]},
              "level_note": c["note"],
              "technique": c["technique"]})
        else:
            na.append({"property_id": i, "reason": NA.get(i, NA_DEFAULT)})
    m = {"version": 1,
         "setup_cmd": "./setup.sh && .venv/bin/python -m vf.build",
         "hooks": {"guard": "PYUNICORN_VERIF", "enable": "none needed: checks read and execute /repo's sources directly; no instrumentation is compiled in",
                   "baseline_off_cmd": "cd /repo && /venv/bin/python -m pytest -ra -q -p no:cacheprovider --timeout=900 --continue-on-collection-errors",
                   "source_commits": [], "add_only": True},
         "engines": [
           {"name": "P", "path": "vf/pe.py", "serves_properties": sorted(k for k,v in CLAIMED.items() if "P" in v["engine"]),
            "kind_free_text": "proxy-value symbolic execution of the real Python methods (SV/SB scalars in object ndarrays, sparse/igraph stand-ins, exhaustive forking explorer with solver feasibility checks), z3 back end"},
           {"name": "H", "path": "vf/heng.py", "serves_properties": ["C01"],
            "kind_free_text": "effect extraction (Python ast + real MRO) and z3 BMC of cache-key/read-set versions over mutator histories, with real-object replay"},
           {"name": "K", "path": "vf/kern.py", "serves_properties": sorted(k for k,v in CLAIMED.items() if "K" in v["engine"]),
            "kind_free_text": "guarded state-merging symbolic interpreter over Cython's parse tree of the repo's numerics.pyx (+ clang JSON AST for src_numerics.c), z3 back end"},
         ],
         "checks": checks,
         "notes": "All checks: ./check <id> quick|thorough; exit 0 unless a solver counterexample was replayed on the real build and is not listed in known_findings.json. Inconclusive obligations are reported per obligation and never counted as held.",
         "not_applicable": na}
    json.dump(m, open(os.path.join(HERE, "MANIFEST.json"), "w"), indent=1)
NA = {}
if __name__ == "__main__":
    main()
