#!/bin/bash
# run every registered quick check on /repo, one after the other; summary in /var/tmp/allquick.txt
cd /verif || exit 2
: > /var/tmp/allquick.txt
for id in C01 C02 C03 C04 C05 C06 C07 C08 C09 C10 C11 C12 C13 C14 C15 C16 C17 C18 C19 C20; do
  t0=$(date +%s)
  ./check $id ${1:-quick} > /var/tmp/allquick-$id.log 2>&1
  rc=$?
  echo "$id exit=$rc $(( $(date +%s) - t0 ))s $(grep "^\[$id\] held" /var/tmp/allquick-$id.log | cut -c1-90)" >> /var/tmp/allquick.txt
done
cat /var/tmp/allquick.txt
