#!/bin/sh
# Creates the overlay venv /verif/.venv (idempotent, offline).
set -e
cd "$(dirname "$0")"
V=.venv
if [ ! -x $V/bin/python ] || ! $V/bin/python -c "import z3, cvc5, numpy, pyunicorn" 2>/dev/null; then
  rm -rf $V
  /venv/bin/python -m venv $V
  echo "import site; site.addsitedir('/venv/lib/python3.12/site-packages')" > $V/lib/python3.12/site-packages/_base.pth
  PIP_NO_INDEX=1 $V/bin/pip install -q --no-index --find-links /opt/veriftools/wheels z3-solver cvc5 >/dev/null
fi
$V/bin/python -c "import z3, cvc5, numpy, pyunicorn; print('overlay ok', z3.get_version_string())"
